------------------------------- MODULE ChessText -------------------------------
(***************************************************************************)
(* Text forms of positions and moves: FEN out/in, UCI long algebraic       *)
(* out/in, the packed move word of the engine (fields only), and the       *)
(* *reading* of a SAN string under the PGN standard (which legal moves a   *)
(* string denotes).  Raw engine strings are interpreted here, inside the   *)
(* specification; the harness never projects them.                         *)
(***************************************************************************)
EXTENDS Chess

Files == <<"a","b","c","d","e","f","g","h">>
Ranks == <<"1","2","3","4","5","6","7","8">>
PieceCh == <<"P","N","B","R","Q","K","p","n","b","r","q","k">>
PromoCh == <<"", "n", "b", "r", "q">>            \* indexed by kind (2..5)
KindCh == <<"", "N", "B", "R", "Q", "K">>        \* SAN piece letters by kind (2..6)
SqName(s) == Files[File(s) + 1] \o Ranks[Rank(s) + 1]
Uci(m) == SqName(MFrom(m)) \o SqName(MTo(m)) \o (IF MPromo(m) = 0 THEN "" ELSE PromoCh[MPromo(m)])

RECURSIVE FenRank(_,_,_,_)
FenRank(b, r, f, empties) ==
  IF f > 7 THEN (IF empties > 0 THEN ToString(empties) ELSE "")
  ELSE LET p == b[MkSq(f, r)] IN
       IF p = 0 THEN FenRank(b, r, f + 1, empties + 1)
       ELSE (IF empties > 0 THEN ToString(empties) ELSE "") \o PieceCh[p] \o FenRank(b, r, f + 1, 0)
RECURSIVE FenBoard(_,_)
FenBoard(b, r) == IF r = 0 THEN FenRank(b, 0, 0, 0) ELSE FenRank(b, r, 0, 0) \o "/" \o FenBoard(b, r - 1)
CastleStr(c) == IF c = 0 THEN "-" ELSE
   (IF HasBit(c,1) THEN "K" ELSE "") \o (IF HasBit(c,2) THEN "Q" ELSE "") \o
   (IF HasBit(c,4) THEN "k" ELSE "") \o (IF HasBit(c,8) THEN "q" ELSE "")
Fen4(pos) == FenBoard(pos.board, 7) \o " " \o (IF pos.stm = 0 THEN "w" ELSE "b") \o " " \o CastleStr(pos.castle)
            \o " " \o (IF pos.ep = -1 THEN "-" ELSE SqName(pos.ep))
Fen(pos) == Fen4(pos) \o " " \o ToString(pos.hmc) \o " " \o ToString(pos.fmn)

\* ---------------------------------------------------------------- parsing
Ch(s, i) == SubSeq(s, i, i)
PieceOfCh(c) == CASE c = "P" -> 1 [] c = "N" -> 2 [] c = "B" -> 3 [] c = "R" -> 4 [] c = "Q" -> 5 [] c = "K" -> 6
                  [] c = "p" -> 7 [] c = "n" -> 8 [] c = "b" -> 9 [] c = "r" -> 10 [] c = "q" -> 11 [] c = "k" -> 12 [] OTHER -> 0
DigitOf(c) == CASE c = "0" -> 0 [] c = "1" -> 1 [] c = "2" -> 2 [] c = "3" -> 3 [] c = "4" -> 4 [] c = "5" -> 5
                [] c = "6" -> 6 [] c = "7" -> 7 [] c = "8" -> 8 [] c = "9" -> 9 [] OTHER -> -1
RECURSIVE Split(_,_,_,_)
Split(s, i, cur, acc) ==
  IF i > Len(s) THEN (IF cur = "" THEN acc ELSE Append(acc, cur))
  ELSE IF Ch(s, i) = " " THEN Split(s, i + 1, "", IF cur = "" THEN acc ELSE Append(acc, cur))
  ELSE Split(s, i + 1, cur \o Ch(s, i), acc)
RECURSIVE Place(_,_,_,_,_)
Place(s, i, f, r, b) ==
  IF i > Len(s) THEN b
  ELSE LET c == Ch(s, i) IN
       IF c = "/" THEN Place(s, i + 1, 0, r - 1, b)
       ELSE IF DigitOf(c) >= 0 THEN Place(s, i + 1, f + DigitOf(c), r, b)
       ELSE Place(s, i + 1, f + 1, r, [b EXCEPT ![MkSq(f, r)] = PieceOfCh(c)])
RECURSIVE Num(_,_,_)
Num(s, i, acc) == IF i > Len(s) THEN acc ELSE Num(s, i + 1, acc * 10 + DigitOf(Ch(s, i)))
RECURSIVE CastleMask(_,_)
CastleMask(s, i) == IF i > Len(s) THEN 0 ELSE
   (CASE Ch(s,i) = "K" -> 1 [] Ch(s,i) = "Q" -> 2 [] Ch(s,i) = "k" -> 4 [] Ch(s,i) = "q" -> 8 [] OTHER -> 0) + CastleMask(s, i + 1)
IsFileCh(c) == \E f \in 1..8 : Files[f] = c
IsRankCh(c) == \E r \in 1..8 : Ranks[r] = c
FileOfCh(c) == (CHOOSE f \in 1..8 : Files[f] = c) - 1
RankOfCh(c) == (CHOOSE r \in 1..8 : Ranks[r] = c) - 1
ParseSq(s) == MkSq(FileOfCh(Ch(s, 1)), RankOfCh(Ch(s, 2)))
ParseFen(s) ==
  LET t == Split(s, 1, "", <<>>) IN
  [board |-> Place(t[1], 1, 0, 7, EmptyBoard),
   stm |-> IF t[2] = "w" THEN 0 ELSE 1,
   castle |-> CastleMask(t[3], 1),
   ep |-> IF t[4] = "-" THEN -1 ELSE ParseSq(t[4]),
   hmc |-> IF Len(t) >= 5 THEN Num(t[5], 1, 0) ELSE 0,
   fmn |-> IF Len(t) >= 6 THEN Num(t[6], 1, 0) ELSE 1]
PromoOfCh(c) == CASE c = "n" \/ c = "N" -> 2 [] c = "b" \/ c = "B" -> 3 [] c = "r" \/ c = "R" -> 4 [] c = "q" \/ c = "Q" -> 5 [] OTHER -> 0
ParseUci(s) == Mv(ParseSq(SubSeq(s, 1, 2)), ParseSq(SubSeq(s, 3, 4)),
                  IF Len(s) < 5 THEN 0 ELSE PromoOfCh(Ch(s, 5)))
WellFormedUci(s) == /\ Len(s) \in {4, 5}
                    /\ IsFileCh(Ch(s,1)) /\ IsRankCh(Ch(s,2)) /\ IsFileCh(Ch(s,3)) /\ IsRankCh(Ch(s,4))
                    /\ (Len(s) = 5 => PromoOfCh(Ch(s,5)) # 0)

\* ---------------------------------------------------------------- packed move word (C16)
\* engine layout: bits 0-5 from, 6-11 to, 12-14 promotion kind, 15-16 castling (1 king side, 2 queen side)
Encode(f, t, pk, cs) == f + 64 * t + 4096 * pk + 32768 * cs
DecFrom(w) == w % 64
DecTo(w) == (w \div 64) % 64
DecPromo(w) == (w \div 4096) % 8
DecCastle(w) == (w \div 32768) % 4

\* ---------------------------------------------------------------- SAN reading (C17)
\* Strip the decorations that do not affect denotation: trailing + or #.
StripSuffix(s) == IF Len(s) > 0 /\ Ch(s, Len(s)) \in {"+", "#"} THEN SubSeq(s, 1, Len(s) - 1) ELSE s
KindOfSanCh(c) == CASE c = "N" -> 2 [] c = "B" -> 3 [] c = "R" -> 4 [] c = "Q" -> 5 [] c = "K" -> 6 [] OTHER -> 0

\* SanRead(pos, legal, str): the set of moves in `legal` that the SAN string denotes.
\* Grammar (PGN standard, export format and the usual lax variants):
\*   castling "O-O" / "O-O-O" (also with zeros), optional check mark
\*   [piece letter] [from file] [from rank] ["x"] target ["=" promo letter] ["+" | "#"]
SanRead(pos, legal, str) ==
  LET s0 == StripSuffix(str) IN
  IF s0 = "O-O" \/ s0 = "0-0" THEN {m \in legal : IsCastle(pos, m) /\ MTo(m) > MFrom(m)}
  ELSE IF s0 = "O-O-O" \/ s0 = "0-0-0" THEN {m \in legal : IsCastle(pos, m) /\ MTo(m) < MFrom(m)}
  ELSE
  LET \* promotion part
      hasEq == Len(s0) >= 2 /\ Ch(s0, Len(s0) - 1) = "="
      promo == IF hasEq THEN PromoOfCh(Ch(s0, Len(s0))) ELSE 0
      s1 == IF hasEq THEN SubSeq(s0, 1, Len(s0) - 2) ELSE s0
      \* target square = last two characters
      okT == Len(s1) >= 2 /\ IsFileCh(Ch(s1, Len(s1) - 1)) /\ IsRankCh(Ch(s1, Len(s1)))
      tgt == IF okT THEN ParseSq(SubSeq(s1, Len(s1) - 1, Len(s1))) ELSE -1
      s2 == IF okT THEN SubSeq(s1, 1, Len(s1) - 2) ELSE ""
      \* optional capture mark
      s3 == IF Len(s2) > 0 /\ Ch(s2, Len(s2)) = "x" THEN SubSeq(s2, 1, Len(s2) - 1) ELSE s2
      \* optional piece letter
      kind == IF Len(s3) > 0 /\ KindOfSanCh(Ch(s3, 1)) # 0 THEN KindOfSanCh(Ch(s3, 1)) ELSE PAWN
      s4 == IF kind # PAWN THEN SubSeq(s3, 2, Len(s3)) ELSE s3
      \* optional origin hints
      hintF == IF Len(s4) >= 1 /\ IsFileCh(Ch(s4, 1)) THEN FileOfCh(Ch(s4, 1)) ELSE -1
      s5 == IF hintF # -1 THEN SubSeq(s4, 2, Len(s4)) ELSE s4
      hintR == IF Len(s5) >= 1 /\ IsRankCh(Ch(s5, 1)) THEN RankOfCh(Ch(s5, 1)) ELSE -1
      s6 == IF hintR # -1 THEN SubSeq(s5, 2, Len(s5)) ELSE s5
      wellFormed == okT /\ s6 = "" /\ (hasEq => promo # 0)
  IN IF ~wellFormed THEN {}
     ELSE {m \in legal :
             /\ ~IsCastle(pos, m)
             /\ KindOf(pos.board[MFrom(m)]) = kind
             /\ MTo(m) = tgt
             /\ MPromo(m) = promo
             /\ (hintF # -1 => File(MFrom(m)) = hintF)
             /\ (hintR # -1 => Rank(MFrom(m)) = hintR)}

\* The spec's own SAN printer in export format (minimal disambiguation), used
\* only to generate replay inputs for the engine's parser.
SanOf(pos, legal, m) ==
  IF IsCastle(pos, m) THEN (IF MTo(m) > MFrom(m) THEN "O-O" ELSE "O-O-O")
  ELSE
  LET k == KindOf(pos.board[MFrom(m)])
      same == {x \in legal : ~IsCastle(pos, x) /\ KindOf(pos.board[MFrom(x)]) = k /\ MTo(x) = MTo(m) /\ MPromo(x) = MPromo(m) /\ x # m}
      cap == IsCapture(pos, m)
      dis == IF k = PAWN THEN (IF cap THEN Files[File(MFrom(m)) + 1] ELSE "")
             ELSE IF same = {} THEN ""
             ELSE IF \A x \in same : File(MFrom(x)) # File(MFrom(m)) THEN Files[File(MFrom(m)) + 1]
             ELSE IF \A x \in same : Rank(MFrom(x)) # Rank(MFrom(m)) THEN Ranks[Rank(MFrom(m)) + 1]
             ELSE SqName(MFrom(m))
  IN (IF k = PAWN THEN "" ELSE KindCh[k]) \o dis \o (IF cap THEN "x" ELSE "") \o SqName(MTo(m))
     \o (IF MPromo(m) # 0 THEN "=" \o KindCh[MPromo(m)] ELSE "")
=============================================================================
