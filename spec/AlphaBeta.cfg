CONSTANTS B = 2 D = 3 MATE = 10 MAXD = 4 Variant = "engine"
 Vals <- MCVals
 Windows <- MCWindows
INIT Init
NEXT Next
INVARIANTS Sound FullWindowExact
CHECK_DEADLOCK FALSE
