------------------------------- MODULE SearchTrace -------------------------------
(***************************************************************************)
(* Monitor for search sessions (code -> spec).  One run is                 *)
(*   go(fen, limits) ; info* ; best* ; end(counters from the hooks)        *)
(* as logged by the harness from the engine's real stdout and hook points. *)
(* Checked per run, against the rules specification and the session        *)
(* properties of SearchSession:                                            *)
(*  C05 exactly one bestmove; it is legal in the root; every pv is a       *)
(*      sequence of legal moves from the root                              *)
(*  C06 a delivered stop is honoured: no iteration starts after it, the    *)
(*      bestmove follows within UnwindBound node visits; isready is        *)
(*      answered while the searcher is parked; the stop flag shared by two *)
(*      threads is an atomic object (else every stop is a data race)       *)
(*  C08 a mate in one is played; `score mate y` claims are true            *)
(*  C09 info depths are 1,2,... without gaps and never exceed the limit;   *)
(*      bestmove is one of the searchmoves; runs with a finite limit end   *)
(*      without being forced                                               *)
(*  C10 indices observed by the hooks stay inside the fixed-size tables    *)
(***************************************************************************)
EXTENDS MateOracle, Json, IOUtils
T == ndJsonDeserialize(IOEnv.TRACE)
MAX_DEPTH == 40
STACK_INFOS == 80
UnwindBound == 10000
MateMaxN == IF "MATE_MAXN" \in DOMAIN IOEnv THEN Num(IOEnv.MATE_MAXN, 1, 0) ELSE 2

VARIABLES l, st
Has(ev, f) == f \in DOMAIN ev
ToSet(seq) == {seq[i] : i \in 1..Len(seq)}
CntKeys == {"go", "info", "best", "end", "pv_moves", "stop_runs", "early_stop_runs", "poison_runs", "searchmoves_runs", "depth_runs",
            "mate_claims", "mate_true", "mate_undecided", "mate1_roots", "solver_agrees", "solver_decided", "thread_runs", "isready_runs", "time_runs", "viol"}
Cnt0 == [k \in CntKeys |-> 0]
Bump(c, ks) == [k \in CntKeys |-> IF k \in ks THEN c[k] + 1 ELSE c[k]]
NoRun == [active |-> FALSE]
Init == l = 1 /\ st = [run |-> NoRun, cnt |-> Cnt0]
V(ln, prop, kind, fen, detail) == [line |-> ln, prop |-> prop, kind |-> kind, fen |-> fen, detail |-> detail]

\* "depth N" inside a go argument string, or -1
DepthLimit(go) == LET w == Split(go, 1, "", <<>>) IN
   IF \E i \in 1..(Len(w) - 1) : w[i] = "depth" THEN Num(w[(CHOOSE i \in 1..(Len(w) - 1) : w[i] = "depth") + 1], 1, 0) ELSE -1
HasWord(go, x) == LET w == Split(go, 1, "", <<>>) IN \E i \in 1..Len(w) : w[i] = x
Finite(go) == ~HasWord(go, "infinite")

\* walk a pv: returns the index of the first illegal move, or 0 if all are legal
RECURSIVE PvBad(_,_,_)
PvBad(p, pv, i) ==
  IF i > Len(pv) THEN 0
  ELSE IF ~WellFormedUci(pv[i]) THEN i
  ELSE LET m == ParseUci(pv[i]) IN
       IF i = 1 THEN (IF m \in Legal(p) THEN PvBad(Apply(p, m), pv, i + 1) ELSE i)
       ELSE IF m \in Legal(p) THEN PvBad(Apply(p, m), pv, i + 1) ELSE i

OnGo(s, ev, ln) ==
  LET root == ParseFen(ev.fen)
      L == Legal(root)
      lim == ev.limits
  IN [st |-> [s EXCEPT !.run = [active |-> TRUE, fen |-> ev.fen, root |-> root, legal |-> L, lim |-> lim, nextDepth |-> 1,
                                 best |-> <<>>, lastInfo |-> [none |-> TRUE], depthLimit |-> DepthLimit(lim.go), solver |-> "none"],
                       !.cnt = Bump(s.cnt, {"go"} \cup (IF lim.stop_id # "" THEN {"stop_runs"} ELSE {})
                                            \cup (IF lim.tt = "poison" THEN {"poison_runs"} ELSE {})
                                            \cup (IF lim.searchmoves # <<>> THEN {"searchmoves_runs"} ELSE {})
                                            \cup (IF DepthLimit(lim.go) # -1 THEN {"depth_runs"} ELSE {})
                                            \cup (IF HasWord(lim.go, "wtime") \/ HasWord(lim.go, "movetime") THEN {"time_runs"} ELSE {}))],
      viol |-> IF L = {} THEN <<V(ln, "X", "root_without_moves", ev.fen, [a |-> 0])>> ELSE <<>>]

OnInfo(s, ev, ln) ==
  LET r == s.run
      bad == PvBad(r.root, ev.pv, 1)
      v1 == IF bad # 0 THEN <<V(ln, "C05", "illegal_pv", r.fen, [pv |-> ev.pv, first_illegal |-> bad, depth |-> ev.depth, tt |-> r.lim.tt, go |-> r.lim.go])>> ELSE <<>>
      v2 == IF ev.depth # r.nextDepth THEN <<V(ln, "C09", "depth_sequence", r.fen, [expected |-> r.nextDepth, got |-> ev.depth, go |-> r.lim.go])>> ELSE <<>>
      v3 == IF r.depthLimit # -1 /\ ev.depth > r.depthLimit THEN <<V(ln, "C09", "depth_exceeds_limit", r.fen, [limit |-> r.depthLimit, got |-> ev.depth, go |-> r.lim.go])>> ELSE <<>>
      v4 == IF ev.pv = <<>> THEN <<V(ln, "C05", "empty_pv", r.fen, [depth |-> ev.depth])>> ELSE <<>>
  IN [st |-> [s EXCEPT !.run.nextDepth = ev.depth + 1, !.run.lastInfo = ev,
                       !.cnt = [Bump(s.cnt, {"info"}) EXCEPT !.pv_moves = @ + Len(ev.pv)]],
      viol |-> v1 \o v2 \o v3 \o v4]

OnBest(s, ev, ln) ==
  LET r == s.run
      legalU == {Uci(m) : m \in r.legal}
      v1 == IF ev.m \notin legalU THEN <<V(ln, "C05", "illegal_bestmove", r.fen, [bestmove |-> ev.m, go |-> r.lim.go, tt |-> r.lim.tt, stop_id |-> r.lim.stop_id, stop_n |-> r.lim.stop_n])>> ELSE <<>>
      v2 == IF r.lim.searchmoves # <<>> /\ ev.m \notin ToSet(r.lim.searchmoves)
            THEN <<V(ln, "C09", "bestmove_not_in_searchmoves", r.fen, [bestmove |-> ev.m, searchmoves |-> r.lim.searchmoves, go |-> r.lim.go, tt |-> r.lim.tt])>> ELSE <<>>
  IN [st |-> [s EXCEPT !.run.best = Append(r.best, ev.m), !.cnt = Bump(s.cnt, {"best"})], viol |-> v1 \o v2]

MateChecks(r, ln, doMate1) ==
  LET li == r.lastInfo
      hasClaim == ~Has(li, "none") /\ li.kind = "mate"
      y == IF hasClaim THEN li.val ELSE 0
      hint == IF hasClaim /\ li.pv # <<>> /\ WellFormedUci(li.pv[1]) THEN ParseUci(li.pv[1]) ELSE -1
      verdict == IF ~hasClaim THEN "none"
                 ELSE IF y = 0 THEN "false"
                 ELSE IF y > 0 THEN ClaimPositive(r.root, y, hint, MateMaxN)
                 ELSE ClaimNegative(r.root, -y, MateMaxN)
      \* beyond the depth explored here the untrusted exhaustive solver of the harness (same definition, engine move generator) decides;
      \* within it the two verdicts must agree (cross-check of the solver against the specification on every run)
      sv == r.solver
      disagree == verdict \in {"true", "false"} /\ sv \in {"true", "false"} /\ sv # verdict
      final == IF verdict = "undecided" /\ sv \in {"true", "false"} THEN sv ELSE verdict
      v1 == (IF final = "false" THEN <<V(ln, "C08", "false_mate_announcement", r.fen, [y |-> y, pv |-> li.pv, depth |-> li.depth, go |-> r.lim.go, tt |-> r.lim.tt,
                                                                                      decided_by |-> IF verdict = "false" THEN "MateOracle.tla" ELSE "harness solver (beyond the TLC bound)"])>> ELSE <<>>)
            \o (IF disagree THEN <<V(ln, "X", "solver_disagrees_with_specification", r.fen, [y |-> y, spec |-> verdict, solver |-> sv])>> ELSE <<>>)
      \* (a search restricted by searchmoves to moves none of which mates cannot deliver the mate: C09 binds it to its list)
      m1 == doMate1 /\ HasMateIn1(r.root, r.legal)
            /\ (r.lim.searchmoves = <<>> \/ \E i \in 1..Len(r.lim.searchmoves) :
                    WellFormedUci(r.lim.searchmoves[i]) /\ ParseUci(r.lim.searchmoves[i]) \in r.legal /\ IsMate(Apply(r.root, ParseUci(r.lim.searchmoves[i]))))
      v2 == IF m1 /\ Len(r.best) = 1 /\ WellFormedUci(r.best[1]) /\ ParseUci(r.best[1]) \in r.legal /\ ~IsMate(Apply(r.root, ParseUci(r.best[1])))
            THEN <<V(ln, "C08", "mate_in_one_not_played", r.fen, [bestmove |-> r.best[1], go |-> r.lim.go, tt |-> r.lim.tt])>> ELSE <<>>
  IN [viol |-> v1 \o v2, bumps |-> (IF hasClaim THEN {"mate_claims"} ELSE {}) \cup (IF final = "true" THEN {"mate_true"} ELSE {})
                                    \cup (IF final = "undecided" THEN {"mate_undecided"} ELSE {}) \cup (IF m1 THEN {"mate1_roots"} ELSE {})
                                    \cup (IF verdict \in {"true", "false"} /\ sv \in {"true", "false"} /\ ~disagree THEN {"solver_agrees"} ELSE {})
                                    \cup (IF verdict = "undecided" /\ sv \in {"true", "false"} THEN {"solver_decided"} ELSE {})]

OnEnd(s, ev, ln) ==
  LET r == s.run
      threads == Has(ev, "mode")
      v1 == IF ev.bestcount # 1 THEN <<V(ln, "C05", "bestmove_count", r.fen, [count |-> ev.bestcount, go |-> r.lim.go, stop_id |-> r.lim.stop_id, stop_n |-> r.lim.stop_n, lost_stop |-> ev.lost_stop])>> ELSE <<>>
      v2 == IF ev.lost_stop \/ (Has(ev, "aborted") /\ ev.aborted) THEN <<V(ln, "C06", "stop_lost", r.fen, [stop_id |-> r.lim.stop_id, stop_n |-> r.lim.stop_n, go |-> r.lim.go, visits_after_stop |-> ev.visits_after_stop, threads |-> threads])>> ELSE <<>>
      v3 == IF ~ev.lost_stop /\ ev.stop_delivered /\ ev.visits_after_stop > UnwindBound
            THEN <<V(ln, "C06", "stop_not_prompt", r.fen, [stop_id |-> r.lim.stop_id, stop_n |-> r.lim.stop_n, visits_after_stop |-> ev.visits_after_stop])>> ELSE <<>>
      v4 == IF ev.iters_after_stop > 0 THEN <<V(ln, "C06", "iteration_started_after_stop", r.fen, [stop_id |-> r.lim.stop_id, stop_n |-> r.lim.stop_n, iterations |-> ev.iters_after_stop])>> ELSE <<>>
      v5 == IF threads /\ ~ev.ready_while_parked THEN <<V(ln, "C06", "isready_not_answered_during_search", r.fen, [park |-> r.lim.stop_id, n |-> r.lim.stop_n])>> ELSE <<>>
      v6 == IF threads /\ ev.stop_sent /\ ev.two_threads /\ ~ev.flag_atomic
            THEN <<V(ln, "C06", "data_race_on_stop_flag", r.fen, [park |-> r.lim.stop_id, n |-> r.lim.stop_n])>> ELSE <<>>
      v7 == IF ev.forced /\ Finite(r.lim.go) /\ r.lim.stop_id = "" THEN <<V(ln, "C09", "did_not_terminate_on_its_own", r.fen, [go |-> r.lim.go, visits |-> ev.visits])>> ELSE <<>>
      v8 == IF ev.max_depth_index > MAX_DEPTH THEN <<V(ln, "C10", "per_depth_array_index", r.fen, [index |-> ev.max_depth_index, capacity |-> MAX_DEPTH + 1, go |-> r.lim.go])>> ELSE <<>>
      v9 == IF ev.max_ply + 1 >= STACK_INFOS THEN <<V(ln, "C10", "search_stack_index", r.fen, [ply |-> ev.max_ply, go |-> r.lim.go])>> ELSE <<>>
      doMate == Has(r.lim, "tag") /\ r.lim.stop_id = "" /\ r.lim.tt # "poison" /\ ev.bestcount = 1 /\ ~ev.forced
      mc == IF doMate THEN MateChecks(r, ln, TRUE) ELSE [viol |-> <<>>, bumps |-> {}]
      viol == v1 \o v2 \o v3 \o v4 \o v5 \o v6 \o v7 \o v8 \o v9 \o mc.viol
  IN [st |-> [s EXCEPT !.run = NoRun,
                       !.cnt = Bump(s.cnt, {"end"} \cup mc.bumps \cup (IF threads THEN {"thread_runs"} ELSE {})
                                            \cup (IF threads /\ ev.ready_while_parked THEN {"isready_runs"} ELSE {})
                                            \cup (IF ev.stop_delivered /\ ev.infos = 0 THEN {"early_stop_runs"} ELSE {}))],
      viol |-> viol]

Process(s, ev, ln) ==
  IF ev.e = "go" THEN OnGo(s, ev, ln)
  ELSE IF ~s.run.active THEN [st |-> s, viol |-> <<>>]
  ELSE IF ev.e = "info" THEN OnInfo(s, ev, ln)
  ELSE IF ev.e = "best" THEN OnBest(s, ev, ln)
  ELSE IF ev.e = "solver" THEN [st |-> [s EXCEPT !.run.solver = ev.verdict], viol |-> <<>>]
  ELSE IF ev.e = "end" THEN OnEnd(s, ev, ln)
  ELSE [st |-> s, viol |-> <<>>]

Next == /\ l <= Len(T)
        /\ \E r \in {Process(st, T[l], l)} :
             /\ st' = [r.st EXCEPT !.cnt = IF r.viol # <<>> THEN Bump(r.st.cnt, {"viol"}) ELSE r.st.cnt]
             /\ \A i \in 1..Len(r.viol) : PrintT("VIOL " \o ToJson(r.viol[i]))
        /\ l' = l + 1
Done == (l = Len(T) + 1) => PrintT("CNT " \o ToJson(st.cnt))
Consumed == TLCGet("stats").diameter = Len(T) + 1
=============================================================================
