CONSTANTS N = 4 Keys = {0,1,2,3,4,5,6,7} MaxOps = 6 ClearValues = TRUE HitBits = 64
INIT Init
NEXT Next
INVARIANT Transparent
CHECK_DEADLOCK FALSE
