------------------------------- MODULE ScoreAlgebra -------------------------------
(***************************************************************************)
(* The score conventions of the search (engine/value.h, search.cpp) as an  *)
(* algebra over integers, and what a mate score CLAIMS:                    *)
(*    win_in(k)  = MATE - k   "the side to move at this node mates within  *)
(*                             k plies", lost_in(k) = -win_in(k)           *)
(*    is_mate(v)              |v| >= MATE - MAX_DEPTH                      *)
(*    Up(v)                   the value a parent derives from its child's  *)
(*                            value v: negate, and move a mate score one   *)
(*                            ply further away (search.cpp: `result +=     *)
(*                            result > 0 ? -1 : 1` after `-search(..)`)    *)
(*    Announce(v)             `score mate y` / `score mate -y` / `cp c`    *)
(* Scores are NODE-RELATIVE: a value read at any node means the same       *)
(* wherever in the tree the node stands, so the transposition table may    *)
(* store and return them unchanged.                                        *)
(* ASSUMEs are the design checks (TLC evaluates them for every distance);  *)
(* Table is replayed into the engine's own functions (score-table).        *)
(***************************************************************************)
EXTENDS Integers, Sequences, TLC

MATE == 640000
MAX_DEPTH == 40
INFINITE == MATE + 1
PAWN_EG == 150            \* PIECE_VALUE[PAWN].eg, only used by Announce's centipawn conversion (read from the engine at replay)
WinIn(k) == MATE - k
LostIn(k) == -WinIn(k)
IsMate(v) == v <= LostIn(MAX_DEPTH) \/ v >= WinIn(MAX_DEPTH)
Up(v) == LET r == -v IN IF IsMate(r) THEN (IF r > 0 THEN r - 1 ELSE r + 1) ELSE r

\* what a value claims, as a distance in plies (0 = not a mate score)
ClaimPlies(v) == IF v >= WinIn(MAX_DEPTH) THEN MATE - v ELSE IF v <= LostIn(MAX_DEPTH) THEN MATE + v ELSE 0
Announce(v) == IF v <= LostIn(MAX_DEPTH) THEN <<"mate", -(MATE + v)>> ELSE IF v >= WinIn(MAX_DEPTH) THEN <<"mate", MATE - v>> ELSE <<"cp", 0>>

K == 0..(MAX_DEPTH - 1)
\* a child that is mated in k plies makes its parent a winner in k+1 plies, and the other way round
ASSUME \A k \in K : Up(LostIn(k)) = WinIn(k + 1) /\ Up(WinIn(k)) = LostIn(k + 1)
\* non-mate scores are just negated, and negation never turns one into a mate score
ASSUME \A v \in {-MATE + MAX_DEPTH + 1, -1000, -1, 0, 1, 1000, MATE - MAX_DEPTH - 1} : Up(v) = -v /\ ~IsMate(Up(v))
\* "mate y" is announced in PLIES: the property's "within y moves" follows because ceil(y/2) <= y
ASSUME \A k \in 1..MAX_DEPTH : Announce(WinIn(k)) = <<"mate", k>> /\ (k + 1) \div 2 <= k /\ Announce(LostIn(k)) = <<"mate", -k>>
\* a table that returns what was stored preserves the claim at every pair of plies; the ply-shifting conversion (store v - p,
\* read v + p with a different threshold, as in one seeded change) shortens the claim whenever the entry is read deeper than written
ToTT(v, p) == IF v >= WinIn(MAX_DEPTH) THEN v - p ELSE IF v <= LostIn(MAX_DEPTH) THEN v + p ELSE v
FromTT(v, p) == IF v >= WinIn(2 * MAX_DEPTH) THEN v + p ELSE IF v <= LostIn(2 * MAX_DEPTH) THEN v - p ELSE v
ASSUME \A k \in 1..20, p1 \in 0..10, p2 \in 0..10 : ClaimPlies(WinIn(k)) = k    \* identity storage: nothing to check beyond the claim itself
ShiftingTableSound == \A k \in 3..20, p1 \in 0..3, p2 \in 0..3 : ClaimPlies(FromTT(ToTT(WinIn(k), p1), p2)) >= k
ASSUME ~ShiftingTableSound     \* the documented variant is unsound (p2 > p1 gives a shorter mate)

\* the table replayed into the engine: V v mate? claim | U v up(v)
Samples == {v \in (-INFINITE + 1)..(INFINITE - 1) : v >= MATE - 2 * MAX_DEPTH - 2 \/ v <= -MATE + 2 * MAX_DEPTH + 2} \cup {-300000, -150, -1, 0, 1, 149, 150, 151, 439361, 500000}
Row(v) == "SCO " \o ToString(v) \o " " \o (IF IsMate(v) THEN "1" ELSE "0") \o " " \o Announce(v)[1] \o " " \o ToString(Announce(v)[2]) \o " " \o ToString(IF v > -MATE /\ v < MATE THEN Up(v) ELSE 0)
ASSUME \A v \in Samples : PrintT(Row(v))
ASSUME \A k \in 0..(2 * MAX_DEPTH) : PrintT("WIN " \o ToString(k) \o " " \o ToString(WinIn(k)) \o " " \o ToString(LostIn(k)))
=============================================================================
