------------------------------- MODULE EvalTrace -------------------------------
(***************************************************************************)
(* Monitor for the evaluation contracts (code -> spec):                    *)
(*  C13  lines {fen, mfen, v, mv}: mfen must be Fen(Mirror(ParseFen(fen))) *)
(*       (the mirror is recomputed here, so a wrong mirror in the harness  *)
(*       cannot mask anything) and v = mv unless the position is a draw by *)
(*       material (outside the quantifier)                                 *)
(*  C14  lines {e:"eval", fen, v [, vf]} and {e:"clear"}: v = vf (the      *)
(*       long-lived evaluator agrees with a fresh one whatever was         *)
(*       evaluated or cleared before) and |v| strictly inside the non-mate *)
(*       range                                                             *)
(* Evaluations are counted per specialised endgame class (Endgames).       *)
(***************************************************************************)
EXTENDS Endgames, Json, IOUtils
T == ndJsonDeserialize(IOEnv.TRACE)
VALUE_MATE == 640000
MAX_DEPTH == 40
MateBound == VALUE_MATE - MAX_DEPTH      \* scores at or beyond this are mate scores

VARIABLES l, cnt
Has(ev, f) == f \in DOMAIN ev
Cnt0 == [k \in ClassNames \cup {"pairs", "skipped_insufficient", "evals", "fresh_cmp", "clears", "pawnless_after_clear", "viol"} |-> 0]
Bump(c, ks) == [k \in DOMAIN c |-> IF k \in ks THEN c[k] + 1 ELSE c[k]]
Init == l = 1 /\ cnt = Cnt0

Mir(ev, ln) ==
  LET p == ParseFen(ev.fen)
      insuff == Insufficient(p)
      mf == Fen(Mirror(p))
      cls == EndgameClass(p)
      v1 == IF mf # ev.mfen THEN <<[line |-> ln, prop |-> "X", kind |-> "harness_mirror_differs", fen |-> ev.fen, detail |-> [spec |-> mf, harness |-> ev.mfen]]>> ELSE <<>>
      v2 == IF ~insuff /\ mf = ev.mfen /\ ev.v # ev.mv
            THEN <<[line |-> ln, prop |-> "C13", kind |-> "asymmetric", fen |-> ev.fen, detail |-> [class |-> cls, v |-> ev.v, mirrored |-> ev.mv, mfen |-> mf]]>> ELSE <<>>
  IN [viol |-> v1 \o v2, bumps |-> (IF insuff THEN {"skipped_insufficient"} ELSE {"pairs", cls})]

Pure(ev, ln, afterClear) ==
  LET p == ParseFen(ev.fen)
      cls == EndgameClass(p)
      v1 == IF Has(ev, "vf") /\ ev.v # ev.vf
            THEN <<[line |-> ln, prop |-> "C14", kind |-> "history_dependent", fen |-> ev.fen, detail |-> [class |-> cls, value |-> ev.v, fresh |-> ev.vf, pawnless |-> ev.pk0]]>> ELSE <<>>
      v2 == IF ev.v >= MateBound \/ ev.v <= -MateBound
            THEN <<[line |-> ln, prop |-> "C14", kind |-> "out_of_range", fen |-> ev.fen, detail |-> [class |-> cls, value |-> ev.v]]>> ELSE <<>>
  IN [viol |-> v1 \o v2, bumps |-> {"evals", cls} \cup (IF Has(ev, "vf") THEN {"fresh_cmp"} ELSE {}) \cup (IF afterClear /\ ev.pk0 THEN {"pawnless_after_clear"} ELSE {})]

Next == /\ l <= Len(T)
        /\ \E r \in {IF Has(T[l], "mfen") THEN Mir(T[l], l)
                     ELSE IF T[l].e = "clear" THEN [viol |-> <<>>, bumps |-> {"clears"}]
                     ELSE Pure(T[l], l, cnt.clears > 0)} :
             /\ \A i \in 1..Len(r.viol) : PrintT("VIOL " \o ToJson(r.viol[i]))
             /\ cnt' = Bump(cnt, r.bumps \cup (IF r.viol # <<>> THEN {"viol"} ELSE {}))
        /\ l' = l + 1
Done == (l = Len(T) + 1) => PrintT("CNT " \o ToJson(cnt))
Consumed == TLCGet("stats").diameter = Len(T) + 1
=============================================================================
