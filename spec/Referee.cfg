CONSTANTS Root = "7k/5K2/6Q1/8/8/8/8/8 w - - 0 1" MaxPlies = 3
SPECIFICATION Spec
CONSTRAINT Bounded
INVARIANTS EndedOnlyWhenOver OneFlag ResultSound
CHECK_DEADLOCK FALSE
