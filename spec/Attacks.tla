------------------------------- MODULE Attacks -------------------------------
(***************************************************************************)
(* Geometric definition of every attack / line table of the engine (C11).  *)
(* Sliders: walk each ray until the first blocker, inclusive.  TLC prints  *)
(* the complete table: 64 squares x every subset of the relevant blocker   *)
(* mask for bishop and rook (107,648 cases), optional random full-board    *)
(* occupancies, and all leaper / line / ray / castling-path entries.       *)
(* Row formats (squares as integers, a1 = 0):                              *)
(*   S <B|R> <sq> | <occupied squares> | <attacked squares>                *)
(*   N <sq> | <knight targets>       K <sq> | <king targets>               *)
(*   P <colour> <sq> | <squares attacked by a pawn of that colour on sq>   *)
(*   L <a> <b> | <squares from a to b inclusive if aligned, else none>     *)
(*   F <a> <b> | <whole line through a and b if aligned and a # b>         *)
(*   Y <dir 0..7 = NW N NE E SE S SW W> <sq> | <ray squares>               *)
(*   C <right 1|2|4|8> | <squares the king crosses and lands on>           *)
(*   Q <colour> | <extra square that must be empty for queen-side castling>*)
(***************************************************************************)
EXTENDS Chess, Randomization

CONSTANT RandomPerSquare   \* number of random full-board occupancies per (slider, square); 0 = none

RECURSIVE Walk(_,_,_)
Walk(occ, seq, i) == IF i > Len(seq) THEN {} ELSE IF seq[i] \in occ THEN {seq[i]} ELSE {seq[i]} \cup Walk(occ, seq, i+1)
Slide(s, occ, dirs) == UNION {Walk(occ, RayT[d][s], 1) : d \in dirs}
\* relevant blockers: ray squares except the last one of each ray (a blocker on the edge changes nothing)
Mask(s, dirs) == UNION {{RayT[d][s][i] : i \in 1..(Len(RayT[d][s]) - 1)} : d \in dirs}

RaySet(d, s) == {RayT[d][s][i] : i \in 1..Len(RayT[d][s])}
DirTo(a, b) == IF \E d \in 1..8 : b \in RaySet(d, a) THEN CHOOSE d \in 1..8 : b \in RaySet(d, a) ELSE 0
Opp(d) == ((d + 3) % 8) + 1
RECURSIVE Upto(_,_,_)
Upto(seq, i, b) == IF seq[i] = b THEN {b} ELSE {seq[i]} \cup Upto(seq, i + 1, b)
LineIncl(a, b) == IF a = b THEN {a} ELSE LET d == DirTo(a, b) IN IF d = 0 THEN {} ELSE {a} \cup Upto(RayT[d][a], 1, b)
FullLine(a, b) == IF a = b THEN {} ELSE LET d == DirTo(a, b) IN IF d = 0 THEN {} ELSE {a} \cup RaySet(d, a) \cup RaySet(Opp(d), a)

RECURSIVE Join(_)
Join(seq) == IF seq = <<>> THEN "" ELSE ToString(Head(seq)) \o (IF Len(seq) > 1 THEN " " ELSE "") \o Join(Tail(seq))
Sqs(S) == Join(SetToSeq(S))

SliderRows(kind, s) ==
  LET dirs == IF kind = "B" THEN DiagDirs ELSE OrthoDirs
      M == Mask(s, dirs)
      occs == SUBSET M
      rnd == IF RandomPerSquare = 0 THEN {} ELSE {RandomSubset(n, Sq \ {s}) : n \in 1..RandomPerSquare}
  IN /\ \A occ \in occs : PrintT("S " \o kind \o " " \o ToString(s) \o " | " \o Sqs(occ) \o " | " \o Sqs(Slide(s, occ, dirs)))
     /\ \A occ \in rnd : PrintT("S " \o kind \o " " \o ToString(s) \o " | " \o Sqs(occ) \o " | " \o Sqs(Slide(s, occ, dirs)))

LeaperRows(s) ==
  /\ PrintT("N " \o ToString(s) \o " | " \o Sqs(KnightT[s]))
  /\ PrintT("K " \o ToString(s) \o " | " \o Sqs(KingT[s]))
  /\ PrintT("P 0 " \o ToString(s) \o " | " \o Sqs(PawnAttacksT[0][s]))
  /\ PrintT("P 1 " \o ToString(s) \o " | " \o Sqs(PawnAttacksT[1][s]))
  /\ \A d \in 1..8 : PrintT("Y " \o ToString(d - 1) \o " " \o ToString(s) \o " | " \o Sqs(RaySet(d, s)))
  /\ \A b \in Sq : PrintT("L " \o ToString(s) \o " " \o ToString(b) \o " | " \o Sqs(LineIncl(s, b)))
  /\ \A b \in Sq : PrintT("F " \o ToString(s) \o " " \o ToString(b) \o " | " \o Sqs(FullLine(s, b)))

\* castling geometry from the rules: the king crosses f/d and lands on g/c; b must be empty on the queen side
CastleRows ==
  /\ PrintT("C 1 | " \o Sqs({5, 6})) /\ PrintT("C 2 | " \o Sqs({2, 3}))
  /\ PrintT("C 4 | " \o Sqs({61, 62})) /\ PrintT("C 8 | " \o Sqs({58, 59}))
  /\ PrintT("Q 0 | " \o Sqs({1})) /\ PrintT("Q 1 | " \o Sqs({57}))

VARIABLES job
Jobs == {<<k, s>> : k \in {"B", "R", "T"}, s \in Sq}
Init == job \in Jobs
Next == UNCHANGED job
Emit == CASE job[1] = "B" -> SliderRows("B", job[2])
          [] job[1] = "R" -> SliderRows("R", job[2])
          [] job[1] = "T" -> LeaperRows(job[2]) /\ (job[2] = 0 => CastleRows)
=============================================================================
