------------------------------- MODULE Chess -------------------------------
(***************************************************************************)
(* The rules of chess in their defining form.                              *)
(*                                                                         *)
(* This module is the independent oracle for the rules-level properties    *)
(* (C01 legal moves, C02 making a move, C07 check/mate/stalemate, C15 move *)
(* classification) and the base of every other rules module.  It shares    *)
(* neither code nor representation with the engine: attacks are ray walks  *)
(* on a 64-cell function, legality is "pseudo-legal and own king not       *)
(* attacked afterwards", castling is spelled out square by square.         *)
(*                                                                         *)
(* Conventions (chosen to coincide with the engine's *external* numbering  *)
(* only, so that FEN/UCI text can be compared as strings):                 *)
(*   squares 0..63, a1 = 0, h1 = 7, a8 = 56                                *)
(*   pieces  0 empty, 1..6 white P N B R Q K, 7..12 black p n b r q k      *)
(*   colours 0 white, 1 black                                              *)
(*   castling rights: bit mask 1 = K, 2 = Q, 4 = k, 8 = q                  *)
(*   move    from + 64*to + 4096*promotionKind ; castling is the king's    *)
(*           two-file move (the UCI form)                                  *)
(*   position [board, stm, castle, ep, hmc, fmn], ep = -1 when none        *)
(***************************************************************************)
EXTENDS Integers, Sequences, FiniteSets, TLC

Sq == 0..63
File(s) == s % 8
Rank(s) == s \div 8
MkSq(f, r) == r * 8 + f
OnBoard(f, r) == f >= 0 /\ f <= 7 /\ r >= 0 /\ r <= 7
Abs(x) == IF x < 0 THEN -x ELSE x
Max2(a, b) == IF a > b THEN a ELSE b
Dist(a, b) == Max2(Abs(File(a) - File(b)), Abs(Rank(a) - Rank(b)))

ColorOf(p) == IF p <= 6 THEN 0 ELSE 1      \* meaningful for p # 0 only
KindOf(p) == IF p = 0 THEN 0 ELSE ((p - 1) % 6) + 1
Piece(c, k) == k + 6 * c
PAWN == 1  KNIGHT == 2  BISHOP == 3  ROOK == 4  QUEEN == 5  KING == 6

\* the eight directions as <<df, dr>>; odd indices are diagonal
Dirs == << <<-1,1>>, <<0,1>>, <<1,1>>, <<1,0>>, <<1,-1>>, <<0,-1>>, <<-1,-1>>, <<-1,0>> >>
DiagDirs == {1,3,5,7}
OrthoDirs == {2,4,6,8}

RECURSIVE RayFrom(_,_,_,_)
RayFrom(f, r, df, dr) ==
  IF OnBoard(f+df, r+dr) THEN <<MkSq(f+df, r+dr)>> \o RayFrom(f+df, r+dr, df, dr) ELSE <<>>

\* RayT[d][s] = the squares seen from s walking in direction d, nearest first
RayT == [d \in 1..8 |-> [s \in Sq |-> RayFrom(File(s), Rank(s), Dirs[d][1], Dirs[d][2])]]

KnightD == {<<1,2>>,<<2,1>>,<<2,-1>>,<<1,-2>>,<<-1,-2>>,<<-2,-1>>,<<-2,1>>,<<-1,2>>}
KnightT == [s \in Sq |-> {MkSq(File(s)+d[1], Rank(s)+d[2]) : d \in {e \in KnightD : OnBoard(File(s)+e[1], Rank(s)+e[2])}}]
KingD == {<<1,0>>,<<1,1>>,<<0,1>>,<<-1,1>>,<<-1,0>>,<<-1,-1>>,<<0,-1>>,<<1,-1>>}
KingT == [s \in Sq |-> {MkSq(File(s)+d[1], Rank(s)+d[2]) : d \in {e \in KingD : OnBoard(File(s)+e[1], Rank(s)+e[2])}}]
\* squares a pawn of colour c standing on s attacks
PawnAttacksT == [c \in {0,1} |-> [s \in Sq |->
   LET r == IF c = 0 THEN Rank(s) + 1 ELSE Rank(s) - 1
   IN {MkSq(f, r) : f \in {g \in {File(s)-1, File(s)+1} : OnBoard(g, r)}}]]
\* squares from which a pawn of colour c attacks square s
PawnAttackersT == [c \in {0,1} |-> [s \in Sq |->
   LET r == IF c = 0 THEN Rank(s) - 1 ELSE Rank(s) + 1
   IN {MkSq(f, r) : f \in {g \in {File(s)-1, File(s)+1} : OnBoard(g, r)}}]]

\* first non-empty square along a ray sequence, or -1
RECURSIVE FirstOcc(_,_,_)
FirstOcc(b, seq, i) ==
  IF i > Len(seq) THEN -1
  ELSE IF b[seq[i]] # 0 THEN seq[i] ELSE FirstOcc(b, seq, i+1)

\* is square s attacked by colour c on board b
Attacked(b, s, c) ==
  \/ \E t \in PawnAttackersT[c][s] : b[t] = Piece(c, PAWN)
  \/ \E t \in KnightT[s] : b[t] = Piece(c, KNIGHT)
  \/ \E t \in KingT[s] : b[t] = Piece(c, KING)
  \/ \E d \in 1..8 :
        LET t == FirstOcc(b, RayT[d][s], 1) IN
        /\ t # -1
        /\ \/ b[t] = Piece(c, QUEEN)
           \/ (d \in DiagDirs /\ b[t] = Piece(c, BISHOP))
           \/ (d \in OrthoDirs /\ b[t] = Piece(c, ROOK))

Squares(b, p) == {s \in Sq : b[s] = p}
Count(b, p) == Cardinality(Squares(b, p))
HasKing(b, c) == \E s \in Sq : b[s] = Piece(c, KING)
KingSq(b, c) == CHOOSE s \in Sq : b[s] = Piece(c, KING)

\* ---------------------------------------------------------------- moves
Mv(f, t, p) == f + 64 * t + 4096 * p
MFrom(m) == m % 64
MTo(m) == (m \div 64) % 64
MPromo(m) == m \div 4096

\* squares reachable along a ray: empty squares, then the first blocker if hostile
RECURSIVE SlideTargets(_,_,_,_)
SlideTargets(b, seq, i, c) ==
  IF i > Len(seq) THEN {}
  ELSE IF b[seq[i]] = 0 THEN {seq[i]} \cup SlideTargets(b, seq, i+1, c)
  ELSE IF ColorOf(b[seq[i]]) # c THEN {seq[i]} ELSE {}

PromoKinds == {KNIGHT, BISHOP, ROOK, QUEEN}

PawnMoves(pos, s) ==
  LET b == pos.board
      c == pos.stm
      up == IF c = 0 THEN 1 ELSE -1
      r == Rank(s)  f == File(s)
      startR == IF c = 0 THEN 1 ELSE 6
      promoR == IF c = 0 THEN 6 ELSE 1
      one == MkSq(f, r + up)
      pushes == IF b[one] # 0 THEN {}
                ELSE {one} \cup (IF r = startR /\ b[MkSq(f, r + 2*up)] = 0 THEN {MkSq(f, r + 2*up)} ELSE {})
      caps == {MkSq(g, r + up) : g \in {h \in {f-1, f+1} : h >= 0 /\ h <= 7 /\
                   LET t == MkSq(h, r + up) IN
                     (b[t] # 0 /\ ColorOf(b[t]) # c) \/ (t = pos.ep /\ pos.ep # -1)}}
      tg == pushes \cup caps
  IN IF r = promoR THEN {Mv(s, t, k) : t \in tg, k \in PromoKinds}
     ELSE {Mv(s, t, 0) : t \in tg}

PieceTargets(b, s, c, k) ==
  CASE k = KNIGHT -> {t \in KnightT[s] : b[t] = 0 \/ ColorOf(b[t]) # c}
    [] k = KING   -> {t \in KingT[s] : b[t] = 0 \/ ColorOf(b[t]) # c}
    [] k = BISHOP -> UNION {SlideTargets(b, RayT[d][s], 1, c) : d \in DiagDirs}
    [] k = ROOK   -> UNION {SlideTargets(b, RayT[d][s], 1, c) : d \in OrthoDirs}
    [] k = QUEEN  -> UNION {SlideTargets(b, RayT[d][s], 1, c) : d \in 1..8}

HasBit(x, bit) == (x \div bit) % 2 = 1

\* Castling, FIDE 3.8.2: right still held, king and that rook on their home
\* squares, squares between them empty, king not in check, the squares the
\* king crosses and lands on not attacked (b1/b8 may be attacked).
CastleMoves(pos) ==
  LET b == pos.board  c == pos.stm
      ks == IF c = 0 THEN 4 ELSE 60
      opp == 1 - c
      kbit == IF c = 0 THEN 1 ELSE 4
      qbit == IF c = 0 THEN 2 ELSE 8
  IN IF b[ks] # Piece(c, KING) \/ Attacked(b, ks, opp) THEN {} ELSE
     (IF HasBit(pos.castle, kbit) /\ b[ks+3] = Piece(c, ROOK) /\ b[ks+1] = 0 /\ b[ks+2] = 0
         /\ ~Attacked(b, ks+1, opp) /\ ~Attacked(b, ks+2, opp)
      THEN {Mv(ks, ks+2, 0)} ELSE {})
     \cup
     (IF HasBit(pos.castle, qbit) /\ b[ks-4] = Piece(c, ROOK) /\ b[ks-1] = 0 /\ b[ks-2] = 0 /\ b[ks-3] = 0
         /\ ~Attacked(b, ks-1, opp) /\ ~Attacked(b, ks-2, opp)
      THEN {Mv(ks, ks-2, 0)} ELSE {})

IsCastle(pos, m) == /\ KindOf(pos.board[MFrom(m)]) = KING
                    /\ MFrom(m) \in {4, 60}
                    /\ Abs(MTo(m) - MFrom(m)) = 2
IsEnPassant(pos, m) == KindOf(pos.board[MFrom(m)]) = PAWN /\ pos.ep # -1 /\ MTo(m) = pos.ep

Pseudo(pos) ==
  LET b == pos.board  c == pos.stm
      own == {s \in Sq : b[s] # 0 /\ ColorOf(b[s]) = c}
  IN UNION {IF KindOf(b[s]) = PAWN THEN PawnMoves(pos, s)
            ELSE {Mv(s, t, 0) : t \in PieceTargets(b, s, c, KindOf(b[s]))} : s \in own}

RECURSIVE ClearBitsRec(_,_)
ClearBitsRec(v, S) == IF S = {} THEN v ELSE LET bt == CHOOSE e \in S : TRUE IN
                        ClearBitsRec(IF HasBit(v, bt) THEN v - bt ELSE v, S \ {bt})
ClearBits(x, bits) == ClearBitsRec(x, bits)

\* a right is lost when its king or rook home square is left or is captured on
RightsLostAt(s) == CASE s = 4 -> {1,2} [] s = 7 -> {1} [] s = 0 -> {2}
                     [] s = 60 -> {4,8} [] s = 63 -> {4} [] s = 56 -> {8} [] OTHER -> {}

\* board after move m (captures, en passant, promotion, castling rook)
BoardAfter(pos, m) ==
  LET b == pos.board  c == pos.stm
      f == MFrom(m)  t == MTo(m)  pr == MPromo(m)
      p == b[f]
      capSq == IF IsEnPassant(pos, m) THEN MkSq(File(t), Rank(f)) ELSE t
      placed == IF pr # 0 THEN Piece(c, pr) ELSE p
      b1 == [b EXCEPT ![f] = 0, ![capSq] = 0]
      b2 == [b1 EXCEPT ![t] = placed]
  IN IF ~IsCastle(pos, m) THEN b2
     ELSE IF t > f THEN [b2 EXCEPT ![f+3] = 0, ![f+1] = Piece(c, ROOK)]
          ELSE [b2 EXCEPT ![f-4] = 0, ![f-1] = Piece(c, ROOK)]

IsCapture(pos, m) == pos.board[MTo(m)] # 0 \/ IsEnPassant(pos, m)
IsQuiet(pos, m) == ~IsCapture(pos, m) /\ MPromo(m) = 0

Apply(pos, m) ==
  LET c == pos.stm
      f == MFrom(m)  t == MTo(m)
      k == KindOf(pos.board[f])
      dbl == k = PAWN /\ Abs(t - f) = 16
  IN [board |-> BoardAfter(pos, m),
      stm |-> 1 - c,
      castle |-> ClearBits(pos.castle, RightsLostAt(f) \cup RightsLostAt(t)),
      ep |-> IF dbl THEN (f + t) \div 2 ELSE -1,
      hmc |-> IF k = PAWN \/ IsCapture(pos, m) THEN 0 ELSE pos.hmc + 1,
      fmn |-> pos.fmn + c]

\* a "null move" (search device, not a chess move): side changes, ep right lapses
ApplyNull(pos) == [pos EXCEPT !.stm = 1 - pos.stm, !.ep = -1, !.hmc = pos.hmc + 1, !.fmn = pos.fmn + pos.stm]

Legal(pos) ==
  LET c == pos.stm IN
  {m \in Pseudo(pos) : LET nb == BoardAfter(pos, m) IN ~Attacked(nb, KingSq(nb, c), 1 - c)}
  \cup CastleMoves(pos)

InCheck(pos) == Attacked(pos.board, KingSq(pos.board, pos.stm), 1 - pos.stm)
GivesCheck(pos, m) == LET nb == BoardAfter(pos, m) IN Attacked(nb, KingSq(nb, 1 - pos.stm), pos.stm)
IsMate(pos) == InCheck(pos) /\ Legal(pos) = {}
IsStalemate(pos) == ~InCheck(pos) /\ Legal(pos) = {}

\* position identity for repetition (FIDE 9.2 as implemented by the property text:
\* placement, side to move, castling rights, en-passant square)
Id(pos) == <<pos.board, pos.stm, pos.castle, pos.ep>>

NonKing(b) == {s \in Sq : b[s] # 0 /\ KindOf(b[s]) # KING}
\* insufficient material as the property states it: bare kings or a single minor piece
Insufficient(pos) ==
  LET nk == NonKing(pos.board) IN
  nk = {} \/ (Cardinality(nk) = 1 /\ \A s \in nk : KindOf(pos.board[s]) \in {KNIGHT, BISHOP})

\* ---------------------------------------------------------------- mirror (C13)
MirrorSq(s) == MkSq(File(s), 7 - Rank(s))
MirrorPiece(p) == IF p = 0 THEN 0 ELSE IF p <= 6 THEN p + 6 ELSE p - 6
MirrorCastle(x) == (IF HasBit(x,1) THEN 4 ELSE 0) + (IF HasBit(x,2) THEN 8 ELSE 0)
                 + (IF HasBit(x,4) THEN 1 ELSE 0) + (IF HasBit(x,8) THEN 2 ELSE 0)
Mirror(pos) == [board |-> [s \in Sq |-> MirrorPiece(pos.board[MirrorSq(s)])],
                stm |-> 1 - pos.stm,
                castle |-> MirrorCastle(pos.castle),
                ep |-> IF pos.ep = -1 THEN -1 ELSE MirrorSq(pos.ep),
                hmc |-> pos.hmc, fmn |-> pos.fmn]
MirrorMove(m) == Mv(MirrorSq(MFrom(m)), MirrorSq(MTo(m)), MPromo(m))

\* ---------------------------------------------------------------- the C01 quantifier
\* One-ply retro-legality exactly as the property text lists it.
RetroLegal(p) ==
  /\ Count(p.board, 6) = 1 /\ Count(p.board, 12) = 1
  /\ Dist(KingSq(p.board, 0), KingSq(p.board, 1)) > 1
  /\ \A s \in Sq : KindOf(p.board[s]) = PAWN => Rank(s) \in 1..6
  /\ \A pc \in 1..12 : Count(p.board, pc) <= 10
  /\ ~Attacked(p.board, KingSq(p.board, 1 - p.stm), p.stm)
  /\ (HasBit(p.castle, 1) => p.board[4] = 6 /\ p.board[7] = 4)
  /\ (HasBit(p.castle, 2) => p.board[4] = 6 /\ p.board[0] = 4)
  /\ (HasBit(p.castle, 4) => p.board[60] = 12 /\ p.board[63] = 10)
  /\ (HasBit(p.castle, 8) => p.board[60] = 12 /\ p.board[56] = 10)
  /\ p.ep # -1 =>
       LET c == 1 - p.stm                               \* colour that just double-pushed
           to == p.ep + (IF c = 0 THEN 8 ELSE -8)
           from == p.ep - (IF c = 0 THEN 8 ELSE -8)
           b0 == [p.board EXCEPT ![to] = 0, ![from] = Piece(c, PAWN)]
       IN /\ Rank(p.ep) = (IF c = 0 THEN 2 ELSE 5)
          /\ p.board[to] = Piece(c, PAWN) /\ p.board[p.ep] = 0 /\ p.board[from] = 0
          /\ ~Attacked(b0, KingSq(p.board, p.stm), c)   \* the push itself was a legal move

\* ---------------------------------------------------------------- fixtures
EmptyBoard == [s \in Sq |-> 0]
StartBoard == [s \in Sq |->
  CASE s \in {0,7} -> 4 [] s \in {1,6} -> 2 [] s \in {2,5} -> 3 [] s = 3 -> 5 [] s = 4 -> 6
    [] s \in 8..15 -> 1 [] s \in 48..55 -> 7
    [] s \in {56,63} -> 10 [] s \in {57,62} -> 8 [] s \in {58,61} -> 9 [] s = 59 -> 11 [] s = 60 -> 12
    [] OTHER -> 0]
StartPos == [board |-> StartBoard, stm |-> 0, castle |-> 15, ep |-> -1, hmc |-> 0, fmn |-> 1]

SetToSeq(S) == LET RECURSIVE go(_)
                   go(T) == IF T = {} THEN <<>> ELSE LET x == CHOOSE y \in T : \A z \in T : y <= z IN <<x>> \o go(T \ {x})
               IN go(S)
=============================================================================
