------------------------------- MODULE BookFiles -------------------------------
(***************************************************************************)
(* Enumerator of concrete Polyglot book files for the spec -> code replay  *)
(* of C19.  A file holds records for one or two positions (keys computed   *)
(* by Polyglot!Key, so the books are real books for those positions), each *)
(* with one to three moves drawn from castling (stored king-takes-rook),   *)
(* promotions, a rook move e1-h1 that is NOT castling, and ordinary moves, *)
(* weights from {0, 1, 2, 5} (not all zero), optionally followed by a      *)
(* trailing partial record of 1..15 bytes; plus the empty file and files   *)
(* consisting of a partial record only.  For every file the line carries   *)
(* the bytes and, per position, the exact record list, the set of best     *)
(* moves and the move selected for every sample residue 0..sum-1.          *)
(***************************************************************************)
EXTENDS BookDefs

CONSTANT Full

P1 == ParseFen("r3k2r/pppppppp/8/8/8/8/PPPPPPPP/R3K2R w KQkq - 0 1")    \* no legal castling (pawns fine, path empty): both castlings legal
P2 == ParseFen("r3k2r/8/8/8/8/8/8/R3K2R b KQkq - 0 1")
P3 == ParseFen("1n2k1n1/P6P/8/8/8/8/8/4K3 w - - 0 1")                    \* promotions with and without capture
P4 == ParseFen("7k/8/8/8/8/8/8/K3R3 w - - 0 1")                          \* e1h1 by a rook: not castling
P5 == ParseFen("rnbqkbnr/pppppppp/8/8/8/8/PPPPPPPP/RNBQKBNR w KQkq - 0 1")
\* back-rank moves e1-h1 / e1-g1 / e1-a1 / e1-c1 by a rook or queen (not castling) while the OPPONENT still holds castling rights
P6 == ParseFen("r3k2r/8/8/8/8/8/4P1K1/4R3 w kq - 0 1")
P7 == ParseFen("4q3/1k2p3/8/8/8/8/8/R3K2R b KQ - 0 1")
Cand(p) == CASE p = P1 -> <<"e1g1", "e1c1", "a2a4", "e1f1">>
             [] p = P2 -> <<"e8g8", "e8c8", "h8h1", "a8a1">>
             [] p = P3 -> <<"a7a8q", "a7b8n", "h7h8r", "h7g8b">>
             [] p = P4 -> <<"e1h1", "e1d1", "e1e8", "a1b1">>
             [] p = P5 -> <<"e2e4", "d2d4", "g1f3", "c2c4">>
             [] p = P6 -> <<"e1h1", "e1g1", "e1a1", "e1c1">>
             [] p = P7 -> <<"e8h8", "e8g8", "e8a8", "e8c8">>
Positions == IF Full THEN {P1, P2, P3, P4, P5, P6, P7} ELSE {P1, P3, P4, P6, P7}
Weights == {0, 1, 2, 5}
ASSUME \A p \in {P1, P2, P3, P4, P5, P6, P7} : \A i \in 1..4 : ParseUci(Cand(p)[i]) \in Legal(p)

\* move index sequences without repetition, length 1..3 (order matters: it is the file order)
Seqs(n) == UNION {{s \in [1..k -> 1..n] : \A i, j \in 1..k : i # j => s[i] # s[j]} : k \in 1..3}
SeqsSmall(n) == {s \in Seqs(n) : Len(s) <= (IF Full THEN 3 ELSE 2)}
Entry(p) == {[pos |-> p, moves |-> ms, weights |-> ws] :
               ms \in SeqsSmall(4), ws \in UNION {[1..k -> Weights] : k \in 1..3}}
GoodEntry(e) == Len(e.moves) = Len(e.weights) /\ \E i \in 1..Len(e.weights) : e.weights[i] > 0

VARIABLES seedp, book
None == [none |-> TRUE]
Init == seedp \in Positions /\ book = None
Next == /\ book = None
        /\ \/ \E e \in Entry(seedp), trunc \in (IF Full THEN {0, 1, 7, 15} ELSE {0, 9}) :
                GoodEntry(e) /\ book' = [entries |-> <<e>>, trunc |-> trunc]
           \/ \E q \in Positions \ {seedp} : \E e1 \in Entry(seedp), e2 \in Entry(q) :
                /\ GoodEntry(e1) /\ GoodEntry(e2) /\ Len(e1.moves) = 1 /\ Len(e2.moves) = 2
                /\ e1.weights[1] = 1 /\ e2.moves = <<1, 2>>
                /\ book' = [entries |-> <<e1, e2>>, trunc |-> 0]
           \* the records of one position need not be adjacent (any byte string is a book file): A, B, A again, also with the same move twice
           \/ \E q \in Positions \ {seedp} : \E m1, m3 \in 1..3, w1, w3 \in {1, 5} :
                book' = [entries |-> <<[pos |-> seedp, moves |-> <<m1>>, weights |-> <<w1>>], [pos |-> q, moves |-> <<1>>, weights |-> <<2>>],
                                       [pos |-> seedp, moves |-> <<m3>>, weights |-> <<w3>>]>>, trunc |-> 0]
           \/ \E trunc \in {0, 5, 15} : seedp = P1 /\ book' = [entries |-> <<>>, trunc |-> trunc]
           \* weights that do not fit a signed byte / a signed 16-bit word (the field is an unsigned big-endian 16-bit number)
           \/ \E ws \in {<<40000, 100>>, <<65535, 32768, 32767>>, <<256, 255>>, <<128, 32768>>, <<200, 129, 127>>} :
                \E ms \in {s \in Seqs(4) : Len(s) = Len(ws)} :
                   book' = [entries |-> <<[pos |-> seedp, moves |-> ms, weights |-> ws]>>, trunc |-> 0]
        /\ UNCHANGED seedp

RECURSIVE Cat(_)
Cat(seq) == IF seq = <<>> THEN "" ELSE Head(seq) \o Cat(Tail(seq))
EntryHex(e) == Cat([i \in 1..Len(e.moves) |-> RecordHex(Hex64(Key(e.pos)), BookMoveCode(e.pos, ParseUci(Cand(e.pos)[e.moves[i]])), e.weights[i])])
TruncHex(n) == SubSeq("a1b2c3d4e5f60718293a4b5c6d7e8f", 1, 2 * n)
BytesHex(b) == Cat([i \in 1..Len(b.entries) |-> EntryHex(b.entries[i])]) \o TruncHex(b.trunc)
EntryOut(e) ==
  LET n == Len(e.moves)
      ucis == [i \in 1..n |-> Cand(e.pos)[e.moves[i]]]
      total == SumTo(e.weights, n)
  IN [fen |-> Fen(e.pos), key |-> Hex64(Key(e.pos)),
      records |-> [i \in 1..n |-> <<ucis[i], e.weights[i], BookMoveCode(e.pos, ParseUci(ucis[i])),
                                    DecodeBookMove(e.pos, BookMoveCode(e.pos, ParseUci(ucis[i])))>>],
      best |-> {ucis[i] : i \in BestSet(e.weights)},
      cum |-> [i \in 1..n |-> SumTo(e.weights, i)],
      pick |-> IF total <= 64 THEN [s \in 1..total |-> ucis[Pick(e.weights, s - 1)]] ELSE <<>>]
\* what the book holds per position: the records of that key in file order, wherever they stand in the file
RECURSIVE Dedup(_, _)
Dedup(seq, seen) == IF seq = <<>> THEN <<>> ELSE IF Head(seq) \in seen THEN Dedup(Tail(seq), seen)
                    ELSE <<Head(seq)>> \o Dedup(Tail(seq), seen \cup {Head(seq)})
RECURSIVE CatS(_)
CatS(seqs) == IF seqs = <<>> THEN <<>> ELSE Head(seqs) \o CatS(Tail(seqs))
Merged(b) == LET ps == Dedup([i \in 1..Len(b.entries) |-> b.entries[i].pos], {})
                 Of(p) == SelectSeq(b.entries, LAMBDA e : e.pos = p)
             IN [k \in 1..Len(ps) |-> [pos |-> ps[k], moves |-> CatS([j \in 1..Len(Of(ps[k])) |-> Of(ps[k])[j].moves]),
                                        weights |-> CatS([j \in 1..Len(Of(ps[k])) |-> Of(ps[k])[j].weights])]]
Line(b) == ToJson([bytes |-> BytesHex(b), nrecords |-> SumTo([i \in 1..Len(b.entries) |-> Len(b.entries[i].moves)], Len(b.entries)),
                   trunc |-> b.trunc, entries |-> [i \in 1..Len(Merged(b)) |-> EntryOut(Merged(b)[i])]])
\* decoding a stored move gives back the move that was stored (spec self-check on every emitted record)
SelfCheck(b) == \A i \in 1..Len(b.entries) : LET e == b.entries[i] IN
                  \A j \in 1..Len(e.moves) : DecodeBookMove(e.pos, BookMoveCode(e.pos, ParseUci(Cand(e.pos)[e.moves[j]]))) = Cand(e.pos)[e.moves[j]]
Emit == (book # None) => SelfCheck(book) /\ PrintT("BOOK " \o Line(book))
=============================================================================
