------------------------------- MODULE TimeAlloc -------------------------------
(***************************************************************************)
(* Time allocation contract (C20).  The arithmetic of the time manager is  *)
(* a numeric black box; the specification states the contract, generates   *)
(* the boundary grid of clock states as chains of increasing remaining     *)
(* time (spec -> code), and checks every observed allocation (code ->      *)
(* spec):                                                                  *)
(*     0 <= t   /\   10 t <= 7 remaining   /\   t non-decreasing in remaining *)
(* All quantities are milliseconds and fit TLC's 32-bit integers           *)
(* (remaining <= 24 h = 86,400,000; 10 t <= 604,800,000).                  *)
(***************************************************************************)
EXTENDS Integers, Sequences, FiniteSets, TLC, Randomization, Json, IOUtils, SequencesExt

DAY == 86400000
RemBoundary == {0, 1, 2, 3, 9, 10, 11, 99, 100, 101, 999, 1000, 1001, 1428, 1429, 9999, 10000, 59999, 60000, 60001,
                179999, 180000, 300000, 599999, 600000, 900000, 3599999, 3600000, 7200000, 43200000, DAY - 1, DAY}
IncBoundary == {0, 1, 10, 100, 1000, 2000, 5000, 30000, 600000}
MtgBoundary == {0, 1, 2, 3, 10, 39, 40, 49, 50, 51, 100, 200}
PlyBoundary == {0, 1, 2, 10, 40, 63, 64, 65, 100, 128, 129, 300, 999, 1000}

\* sorted sequence of a set of integers and its textual form (library folds: no deep recursion on large sets)
SortedSeq(S) == SetToSortSeq(S, LAMBDA a, b : a < b)
Join(seq) == FoldLeft(LAMBDA acc, x : IF acc = "" THEN ToString(x) ELSE acc \o " " \o ToString(x), "", seq)
Contract(rem, t) == 0 <= t /\ 10 * t <= 7 * rem
=============================================================================
