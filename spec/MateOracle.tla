------------------------------- MODULE MateOracle -------------------------------
(***************************************************************************)
(* Forced mate, by definition (C08).                                       *)
(*   CanMate(p, n): the side to move can force checkmate within n of its   *)
(*                  own moves                                              *)
(*   Doomed(q, n) : the side to move is checkmated now, or every legal     *)
(*                  move leads to a position in which the opponent         *)
(*                  CanMate within n moves                                 *)
(* and the reading of a UCI `score mate y` claim.  The engine counts plies *)
(* where UCI counts moves, so a claim y > 0 is checked as "mate within     *)
(* ceil(y/2) moves" first (which implies "within y moves"), with the       *)
(* engine's own first PV move as a hint for the existential quantifier,    *)
(* and only then with larger n up to the bound MaxN.                       *)
(***************************************************************************)
EXTENDS ChessText
RECURSIVE CanMate(_,_), Doomed(_,_)
CanMate(p, n) == n >= 1 /\ \E m \in Legal(p) : Doomed(Apply(p, m), n - 1)
Doomed(q, n) == LET L == Legal(q) IN
   IF L = {} THEN InCheck(q)
   ELSE n >= 1 /\ \A r \in L : CanMate(Apply(q, r), n)
CanMateHint(p, n, h) == n >= 1 /\ h \in Legal(p) /\ Doomed(Apply(p, h), n - 1)
HasMateIn1(p, L) == \E m \in L : IsMate(Apply(p, m))

\* verdicts: "true", "false", "undecided" (claim beyond the bound)
ClaimPositive(p, y, hint, MaxN) ==
  LET n0 == (y + 1) \div 2 IN
  IF n0 > MaxN THEN "undecided"
  ELSE IF (hint # -1 /\ CanMateHint(p, n0, hint)) \/ CanMate(p, n0) THEN "true"
  ELSE IF y <= MaxN THEN (IF CanMate(p, y) THEN "true" ELSE "false")
  ELSE IF CanMate(p, MaxN) THEN "true" ELSE "undecided"
ClaimNegative(p, y, MaxN) ==      \* y = |reported value|: mated within y moves claimed; the engine means y/2
  LET n0 == (y + 1) \div 2 IN
  IF n0 > MaxN THEN "undecided"
  ELSE IF Doomed(p, n0) THEN "true"
  ELSE IF y <= MaxN THEN (IF Doomed(p, y) THEN "true" ELSE "false")
  ELSE IF Doomed(p, MaxN) THEN "true" ELSE "undecided"
=============================================================================
