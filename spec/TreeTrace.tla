------------------------------- MODULE TreeTrace -------------------------------
(***************************************************************************)
(* Conformance monitor (code -> spec) for SearchTree: the node entries and *)
(* exits of real searches (harness/tree.cpp), one ndjson line each:        *)
(*   {e:"go", from, moves, fen, depth}   the game the search starts from   *)
(*   {e:"n", q, p, d, a, b, fen}         an activation is entered          *)
(*   {e:"x", q, p, v, st}                the top activation returns v      *)
(*   {e:"end"}                                                             *)
(* The monitor keeps the stack of activations with the specification's own *)
(* game state in each, classifies every entry by SearchTree!Relation and   *)
(* reports the broken rules of StepFaults / ExitFaults.  It always         *)
(* consumes the next line and re-synchronises on the logged position.      *)
(***************************************************************************)
EXTENDS SearchTree, Json, IOUtils
T == ndJsonDeserialize(IOEnv.TRACE)

VARIABLES l, st
Keys == {"go", "n", "x", "root", "move", "null", "verify", "iid", "qentry", "bad", "qnodes", "checks", "q_evasion_nodes", "drawn_nodes", "repeated_nodes",
         "mated_nodes", "stalemate_nodes", "rule_values", "stopped_exits", "mate_scores", "capture_steps", "quiet_steps", "inverted_root_windows", "viol"}
Bump(c, ks) == [k \in DOMAIN c |-> IF k \in ks THEN c[k] + 1 ELSE c[k]]
Init == l = 1 /\ st = [stk |-> <<>>, root |-> NewGame(StartPos), cnt |-> [k \in Keys |-> 0], viol |-> <<>>]

V(ln, kind, fen, detail) == [line |-> ln, kind |-> kind, fen |-> fen, detail |-> detail]
RECURSIVE PlayAll(_, _, _)
PlayAll(g, ms, i) == IF i > Len(ms) THEN g ELSE PlayAll(Do(g, ParseUci(ms[i])), ms, i + 1)

Go(s, ev, ln) ==
  LET g == PlayAll(NewGame(ParseFen(ev.from)), ev.moves, 1)
      bad == Fen(g.cur) # ev.fen
  IN [s EXCEPT !.stk = <<>>, !.root = IF bad THEN NewGame(ParseFen(ev.fen)) ELSE g, !.cnt = Bump(s.cnt, {"go"} \cup (IF bad THEN {"viol"} ELSE {})),
               !.viol = IF bad THEN <<V(ln, "root_position", ev.fen, Fen(g.cur))>> ELSE <<>>]

Enter(s, ev, ln) ==
  LET cpos == ParseFen(ev.fen)
      top == IF s.stk = <<>> THEN [none |-> TRUE] ELSE s.stk[Len(s.stk)]
  IN IF s.stk = <<>> THEN
       LET ok == RootEntryOK(ev.p, ev.q, ev.a, ev.b) /\ cpos = s.root.cur
           f == MkFrame(IF cpos = s.root.cur THEN s.root ELSE NewGame(cpos), ev.q, ev.p, ev.d, ev.a, ev.b, "root")
       IN [s EXCEPT !.stk = <<f>>, !.cnt = Bump(s.cnt, {"n", "root"} \cup (IF ok THEN {} ELSE {"viol"}) \cup (IF InvertedRoot(ev.a, ev.b) THEN {"inverted_root_windows"} ELSE {})),
                    !.viol = IF ok THEN <<>> ELSE <<V(ln, "root_entry", ev.fen, [p |-> ev.p, q |-> ev.q, a |-> ev.a, b |-> ev.b])>>]
     ELSE
       LET rel == Relation(top, cpos, ev.q, ev.p)
           faults == StepFaults(top, rel, cpos, ev.q, ev.p, ev.d, ev.a, ev.b)
           g == IF rel = "bad" THEN NewGame(cpos) ELSE ChildGame(top, rel, cpos)
           f == MkFrame(g, ev.q, ev.p, ev.d, ev.a, ev.b, ChildHow(top, rel))
           m == IF rel = "move" THEN CHOOSE x \in MovesTo(top, cpos) : TRUE ELSE -1
           feats == {"n", rel} \cup (IF ev.q = 1 THEN {"qnodes"} ELSE {}) \cup (IF f.chk THEN {"checks"} ELSE {})
                    \cup (IF ev.q = 1 /\ f.chk THEN {"q_evasion_nodes"} ELSE {})
                    \cup (IF rel = "move" THEN (IF IsQuiet(top.g.cur, m) THEN {"quiet_steps"} ELSE {"capture_steps"}) ELSE {})
                    \cup (IF faults # {} THEN {"viol"} ELSE {})
       IN [s EXCEPT !.stk = Append(s.stk, f), !.cnt = Bump(s.cnt, feats),
                    !.viol = IF faults = {} THEN <<>> ELSE
                             <<V(ln, "step", ev.fen, [faults |-> faults, rel |-> rel, parent |-> Fen(top.g.cur),
                                                      pw |-> <<top.q, top.ply, top.d, top.a, top.b>>, cw |-> <<ev.q, ev.p, ev.d, ev.a, ev.b>>, phow |-> top.how])>>]

Exit(s, ev, ln) ==
  IF s.stk = <<>> THEN [s EXCEPT !.cnt = Bump(s.cnt, {"x", "viol"}), !.viol = <<V(ln, "exit_without_entry", "", [p |-> ev.p])>>]
  ELSE
    LET f == s.stk[Len(s.stk)]
        matched == f.q = ev.q /\ f.ply = ev.p
        faults == IF matched THEN ExitFaults(f, ev.v, ev.st = 1) ELSE {"unbalanced"}
        feats == {"x"} \cup (IF ev.st = 1 THEN {"stopped_exits"} ELSE {})
                 \cup (IF ev.st = 0 /\ DrawnHere(f) THEN {"drawn_nodes"} ELSE {})
                 \cup (IF ev.st = 0 /\ f.q = 0 /\ f.ply > 0 /\ Repeated(f.g) /\ ~IsDraw(f.g) THEN {"repeated_nodes"} ELSE {})
                 \cup (IF ev.st = 0 /\ ~DrawnHere(f) /\ f.legal = {} THEN (IF f.chk THEN {"mated_nodes"} ELSE {"stalemate_nodes"}) ELSE {})
                 \cup (IF ev.st = 0 /\ RuleDecides(f) THEN {"rule_values"} ELSE {})
                 \cup (IF ev.st = 0 /\ IsMateScore(ev.v) THEN {"mate_scores"} ELSE {})
                 \cup (IF faults # {} THEN {"viol"} ELSE {})
        rest == SubSeq(s.stk, 1, Len(s.stk) - 1)
        rest2 == IF rest # <<>> /\ ev.st = 1 /\ f.how = "move" /\ f.ply = rest[Len(rest)].ply + 1
                 THEN [rest EXCEPT ![Len(rest)].ab = TRUE, ![Len(rest)].abp = f.g.cur] ELSE rest
    IN [s EXCEPT !.stk = rest2, !.cnt = Bump(s.cnt, feats),
                 !.viol = IF faults = {} THEN <<>> ELSE
                          <<V(ln, "exit", Fen(f.g.cur), [faults |-> faults, v |-> ev.v, frame |-> <<f.q, f.ply, f.d, f.a, f.b>>, how |-> f.how,
                                                         chk |-> f.chk, nlegal |-> Cardinality(f.legal), got |-> <<ev.q, ev.p>>])>>]

Step(s, ev, ln) ==
  IF ev.e = "go" THEN Go(s, ev, ln)
  ELSE IF ev.e = "n" THEN Enter(s, ev, ln)
  ELSE IF ev.e = "x" THEN Exit(s, ev, ln)
  ELSE [s EXCEPT !.viol = IF s.stk # <<>> THEN <<V(ln, "activations_left_open", "", Len(s.stk))>> ELSE <<>>,
                 !.cnt = Bump(s.cnt, IF s.stk # <<>> THEN {"viol"} ELSE {}), !.stk = <<>>]

Next == /\ l <= Len(T)
        /\ \E r \in {Step(st, T[l], l)} :
             /\ \A i \in 1..Len(r.viol) : PrintT("VIOL " \o ToJson(r.viol[i]))
             /\ st' = r
        /\ l' = l + 1
Done == (l = Len(T) + 1) => PrintT("CNT " \o ToJson(st.cnt))
Consumed == TLCGet("stats").diameter = Len(T) + 1
=============================================================================
