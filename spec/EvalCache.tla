------------------------------- MODULE EvalCache -------------------------------
(***************************************************************************)
(* Design model of the evaluator's pawn-structure cache (C14): a           *)
(* direct-mapped table, slot = key mod N, entry = {key, value}.  A probe   *)
(* hits when the stored key equals the probed key.  Keys are pawn keys;    *)
(* the pawnless structure has key 0.  F is the (abstract) pure function    *)
(* the cache memoises, with F[0] = 0 (no pawns, no pawn score).            *)
(*                                                                         *)
(* ClearValues = FALSE models clear() as written: keys are zeroed, values  *)
(* stay.  Then the history  Eval(k) ; Clear ; Eval(0)  with k # 0,         *)
(* k mod N = 0 returns F[k] for the pawnless structure.  ClearValues =     *)
(* TRUE is the repair.  HitBits models a hit test that compares only the   *)
(* low part of the key (a table that stores a narrowed key): with HitBits  *)
(* below the key range two structures agreeing in the compared bits share  *)
(* one entry.  Transparent: every Eval(k) returns F[k].                    *)
(***************************************************************************)
EXTENDS Integers, Sequences, TLC
CONSTANTS N, Keys, MaxOps, ClearValues, HitBits
F == [k \in Keys |-> IF k = 0 THEN 0 ELSE 100 + k]
VARIABLES table, last, ops
vars == <<table, last, ops>>
Init == table = [s \in 0..(N - 1) |-> [key |-> 0, value |-> 0]] /\ last = [key |-> 0, value |-> 0] /\ ops = 0
Eval(k) == /\ ops < MaxOps
           /\ LET e == table[k % N] IN
              IF e.key % HitBits = k % HitBits          \* HitBits > every key: full comparison; smaller: only the low part is compared
              THEN last' = [key |-> k, value |-> e.value] /\ UNCHANGED table
              ELSE last' = [key |-> k, value |-> F[k]] /\ table' = [table EXCEPT ![k % N] = [key |-> k, value |-> F[k]]]
           /\ ops' = ops + 1
Clear == /\ ops < MaxOps
         /\ table' = [s \in 0..(N - 1) |-> [key |-> 0, value |-> IF ClearValues THEN 0 ELSE table[s].value]]
         /\ UNCHANGED last /\ ops' = ops + 1
Next == Clear \/ \E k \in Keys : Eval(k)
Transparent == last.value = F[last.key]
=============================================================================
