------------------------------- MODULE EncodeTable -------------------------------
(* The complete table of packed move words (C16, exhaustive): every (from, to,     *)
(* promotion kind) triple with promotion in {none, N, B, R, Q} and both castling   *)
(* codes, with the word ChessText!Encode assigns.  One row per word:               *)
(*   ENC from to promo castle word                                                 *)
EXTENDS ChessText
Row(f, t, pk, cs) == "ENC " \o ToString(f) \o " " \o ToString(t) \o " " \o ToString(pk) \o " " \o ToString(cs) \o " " \o ToString(Encode(f, t, pk, cs))
ASSUME \A f \in 0..63 : \A t \in 0..63 : \A pk \in {0, 2, 3, 4, 5} : PrintT(Row(f, t, pk, 0))
ASSUME PrintT(Row(0, 0, 0, 1)) /\ PrintT(Row(0, 0, 0, 2))
=============================================================================
