------------------------------- MODULE ChessSanity -------------------------------
(* Sanity of the rules/text modules themselves, evaluated by TLC as ASSUMEs:    *)
(* known perft counts, FEN round trips, SAN reading, mirror involution.         *)
EXTENDS ChessText

RECURSIVE Perft(_,_)
Perft(p, d) == IF d = 0 THEN 1 ELSE
  LET L == Legal(p) IN IF d = 1 THEN Cardinality(L) ELSE
  LET RECURSIVE Sum(_)
      Sum(S) == IF S = {} THEN 0 ELSE LET m == CHOOSE x \in S : TRUE IN Perft(Apply(p, m), d - 1) + Sum(S \ {m})
  IN Sum(L)

Kiwipete == ParseFen("r3k2r/p1ppqpb1/bn2pnp1/3PN3/1p2P3/2N2Q1p/PPPBBPPP/R3K2R w KQkq - 0 1")
Pos3 == ParseFen("8/2p5/3p4/KP5r/1R3p1k/8/4P1P1/8 w - - 0 1")
Pos4 == ParseFen("r3k2r/Pppp1ppp/1b3nbN/nP6/BBP1P3/q4N2/Pp1P2PP/R2Q1RK1 w kq - 0 1")
Pos5 == ParseFen("rnbq1k1r/pp1Pbppp/2p5/8/2B5/8/PPP1NnPP/RNBQK2R w KQ - 1 8")
PinEp == ParseFen("8/6b1/8/4Pp2/8/2K5/8/7k w - f6 0 1")

ASSUME Fen(StartPos) = "rnbqkbnr/pppppppp/8/8/8/8/PPPPPPPP/RNBQKBNR w KQkq - 0 1"
ASSUME ParseFen(Fen(StartPos)) = StartPos
ASSUME \A p \in {Kiwipete, Pos3, Pos4, Pos5, PinEp} : ParseFen(Fen(p)) = p /\ Mirror(Mirror(p)) = p /\ RetroLegal(p)
ASSUME Perft(StartPos, 1) = 20 /\ Perft(StartPos, 2) = 400 /\ Perft(StartPos, 3) = 8902
ASSUME Perft(Kiwipete, 1) = 48 /\ Perft(Kiwipete, 2) = 2039
ASSUME Perft(Pos3, 1) = 14 /\ Perft(Pos3, 2) = 191 /\ Perft(Pos3, 3) = 2812
ASSUME Perft(Pos4, 1) = 6 /\ Perft(Pos4, 2) = 264
ASSUME Perft(Pos5, 1) = 44 /\ Perft(Pos5, 2) = 1486
ASSUME Perft(Mirror(Kiwipete), 2) = 2039 /\ Perft(Mirror(Pos5), 2) = 1486
ASSUME ParseUci("e5f6") \in Legal(PinEp)
ASSUME {Uci(m) : m \in SanRead(StartPos, Legal(StartPos), "Nf3")} = {"g1f3"}
ASSUME {Uci(m) : m \in SanRead(StartPos, Legal(StartPos), "e4")} = {"e2e4"}
ASSUME {Uci(m) : m \in SanRead(Kiwipete, Legal(Kiwipete), "O-O-O+")} = {"e1c1"}
ASSUME {Uci(m) : m \in SanRead(Kiwipete, Legal(Kiwipete), "dxe6")} = {"d5e6"}
ASSUME {Uci(m) : m \in SanRead(Pos5, Legal(Pos5), "dxc8=Q+")} = {"d7c8q"}
ASSUME \A m \in Legal(Kiwipete) : SanRead(Kiwipete, Legal(Kiwipete), SanOf(Kiwipete, Legal(Kiwipete), m)) = {m}
ASSUME \A m \in Legal(Pos5) : SanRead(Pos5, Legal(Pos5), SanOf(Pos5, Legal(Pos5), m)) = {m}
ASSUME \A m \in Legal(Pos4) : ParseUci(Uci(m)) = m /\ WellFormedUci(Uci(m))
ASSUME \A f \in {0, 13, 63}, t \in {0, 27, 63}, pk \in 0..5, cs \in 0..2 :
          LET w == Encode(f, t, pk, cs) IN DecFrom(w) = f /\ DecTo(w) = t /\ DecPromo(w) = pk /\ DecCastle(w) = cs
ASSUME PrintT("ChessSanity OK")
=============================================================================
