------------------------------- MODULE RootsCheck -------------------------------
(* Filters candidate root FENs by the C01 quantifier: prints one line per FEN    *)
(* saying whether it is one-ply retro-legal and round-trips through Fen/ParseFen. *)
EXTENDS ChessText, Json, IOUtils
Roots == ndJsonDeserialize(IOEnv.ROOTS)
Verdict(f) == LET p == ParseFen(f) IN
   IF ~(HasKing(p.board, 0) /\ HasKing(p.board, 1)) THEN "BAD nokings"
   ELSE IF ~RetroLegal(p) THEN "BAD notretrolegal"
   ELSE IF Fen(p) # f THEN "BAD roundtrip " \o Fen(p)
   ELSE "OK"
ASSUME \A i \in 1..Len(Roots) : PrintT("ROOT " \o Verdict(Roots[i].fen) \o " | " \o Roots[i].fen)
=============================================================================
