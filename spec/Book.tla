------------------------------- MODULE Book -------------------------------
(***************************************************************************)
(* The book reader loop of the engine, statement by statement, as a small  *)
(* state machine with the stream's state bit (C19, design level): as       *)
(* written (`while (stream) { read; decode; insert }`) versus repaired     *)
(* (`while (read) { decode; insert }`).  Definitions of records, decoding  *)
(* and the selection policies are in BookDefs; concrete files for the      *)
(* replay into the real reader are enumerated by BookFiles.                *)
(***************************************************************************)
EXTENDS BookDefs

\* ---------------------------------------------------------------- (1) the reader loop (design level)
\* chunks: the file cut into 16-byte pieces, the last one possibly partial
CONSTANTS MaxRecords, ReadChecked      \* ReadChecked = FALSE: `while (stream) { read; insert }` as written; TRUE: `while (read) insert`
VARIABLES file,      \* [recs: sequence of record ids, partial: BOOLEAN]
          rpos, good, entry, loaded, pc
rvars == <<file, rpos, good, entry, loaded, pc>>
RInit == /\ file \in {[recs |-> [i \in 1..n |-> i], partial |-> p] : n \in 0..MaxRecords, p \in BOOLEAN}
         /\ rpos = 1 /\ good = TRUE /\ entry = "uninitialised" /\ loaded = <<>> /\ pc = "test"
RTest == /\ pc = "test"
         /\ IF good THEN pc' = "read" ELSE pc' = "done"
         /\ UNCHANGED <<file, rpos, good, entry, loaded>>
RRead == /\ pc = "read"
         /\ IF rpos <= Len(file.recs)
            THEN entry' = file.recs[rpos] /\ rpos' = rpos + 1 /\ good' = TRUE
            ELSE /\ good' = FALSE /\ rpos' = rpos      \* short read: eofbit and failbit are set
                 /\ entry' = IF file.partial THEN "mixed" ELSE entry      \* the buffer keeps whatever it held
         /\ pc' = IF ReadChecked /\ ~good' THEN "done" ELSE "insert"
         /\ UNCHANGED <<file, loaded>>
RInsert == /\ pc = "insert" /\ loaded' = Append(loaded, entry) /\ pc' = "test"
           /\ UNCHANGED <<file, rpos, good, entry>>
RNext == RTest \/ RRead \/ RInsert
ReaderSpec == RInit /\ [][RNext]_rvars
LoadedIsContent == pc = "done" => loaded = file.recs
ReaderTerminates == <>(pc = "done")
=============================================================================
