------------------------------- MODULE RefereeDefs -------------------------------
(***************************************************************************)
(* When a game played by the regression tool's referee is over, and with   *)
(* which result (tools/regression/main.cpp game()).  "Draw" is the engine  *)
(* library's is_draw(): fifty moves, threefold repetition, insufficient    *)
(* material (ChessGame!IsDraw).                                            *)
(***************************************************************************)
EXTENDS ChessGame, ChessText

Over(g) == LET L == Legal(g.cur) IN L = {} \/ IsDraw(g)
\* result by the rules alone (no flag fall)
Outcome(g) == IF Legal(g.cur) = {} /\ InCheck(g.cur) THEN (IF g.cur.stm = 0 THEN "0-1" ELSE "1-0") ELSE "1/2-1/2"
\* with clocks: flags[c] = TRUE when colour c has no time left.  As written in game(): Black's flag is tested after White's, mate last
OutcomeWithFlags(g, flags) ==
  IF Legal(g.cur) = {} /\ InCheck(g.cur) THEN (IF g.cur.stm = 0 THEN "0-1" ELSE "1-0")
  ELSE IF flags[1] THEN "1-0" ELSE IF flags[0] THEN "0-1" ELSE "1/2-1/2"

=============================================================================
