------------------------------- MODULE PolyglotTrace -------------------------------
(* Monitor for C18 (code -> spec): every line carries a FEN printed by the engine and the   *)
(* book key the engine computed for that position; the key is recomputed by Polyglot!Key.   *)
EXTENDS Polyglot, Json, IOUtils
T == ndJsonDeserialize(IOEnv.TRACE)
VARIABLES l, cnt
Init == l = 1 /\ cnt = [pg |-> 0, ep |-> 0, epcounts |-> 0, castle |-> 0, viol |-> 0]
Next == /\ l <= Len(T)
        /\ \E r \in {LET p == ParseFen(T[l].fen) IN [key |-> Hex64(Key(p)), ep |-> p.ep # -1, epc |-> EpCounts(p), cs |-> p.castle # 0]} :
             /\ (r.key # T[l].key =>
                   PrintT("VIOL " \o ToJson([line |-> l, prop |-> "C18", kind |-> "book_key", fen |-> T[l].fen,
                                             detail |-> [engine |-> T[l].key, spec |-> r.key, ep |-> r.ep, ep_counts |-> r.epc]])))
             /\ cnt' = [pg |-> cnt.pg + 1, ep |-> cnt.ep + (IF r.ep THEN 1 ELSE 0), epcounts |-> cnt.epcounts + (IF r.epc THEN 1 ELSE 0),
                        castle |-> cnt.castle + (IF r.cs THEN 1 ELSE 0), viol |-> cnt.viol + (IF r.key # T[l].key THEN 1 ELSE 0)]
        /\ l' = l + 1
Done == (l = Len(T) + 1) => PrintT("CNT " \o ToJson(cnt))
Consumed == TLCGet("stats").diameter = Len(T) + 1
=============================================================================
