------------------------------- MODULE AlphaBeta -------------------------------
(***************************************************************************)
(* Design model of the value discipline of Search::search: negamax with a  *)
(* fail-soft window, a zero-width probe of every move followed by a full   *)
(* re-search at pv nodes when the probe lands inside the window, and the   *)
(* mate-distance step applied to the child's value before it is compared   *)
(* with the bounds (search.cpp: `result = -search(.. -(alpha+1), -alpha)`, *)
(* `if (PV_NODE && alpha < result && result < beta) result = -search(..    *)
(* -beta, -alpha)`, `if (is_mate(result)) result += result > 0 ? -1 : 1`,  *)
(* then `bestValue / alpha / beta` updates).  No table, no pruning, no     *)
(* reductions: this is the skeleton the heuristics hang on.                *)
(*                                                                         *)
(* The game is an abstract complete tree of branching B and depth D whose  *)
(* leaves carry every assignment of Vals (a mated leaf is -MATE, as        *)
(* lost_in(0) at a checkmated node).  TLC enumerates all assignments and   *)
(* all windows and checks the fail-soft theorem against plain minimax:     *)
(*     v <= alpha  =>  MM <= v      (upper bound)                          *)
(*     v >= beta   =>  MM >= v      (lower bound)                          *)
(*     otherwise       MM  = v      (exact)                                *)
(* and that a mate score at the root is a true statement about the tree    *)
(* whenever it is exact or a bound in the claimed direction (C08's         *)
(* announcements are read off exact root values).                          *)
(***************************************************************************)
EXTENDS Integers, Sequences, FiniteSets
CONSTANTS B, D, Vals, MATE, MAXD, Windows,
          Variant    \* "engine" = the code; the others are seeded design errors that the theorem must reject
INF == MATE + 1
IsMate(v) == v <= -(MATE - MAXD) \/ v >= MATE - MAXD
\* the parent's view of a child's value r (already negated): one ply further from the mate
StepV(r) == IF IsMate(r) THEN (IF r > 0 THEN r - 1 ELSE r + 1) ELSE r

Leaves == {s \in [1..D -> 1..B] : TRUE}
VARIABLES leaf, prune
\* prune[l]: the move into leaf l is one the frontier node may skip (futility pruning: a quiet, non-checking move at a node whose
\* static evaluation is far below alpha).  Init: no pruning (the fail-soft theorem); InitPrune: every choice of prunable moves.
Init == leaf \in [Leaves -> Vals] /\ prune = [l \in Leaves |-> FALSE]
InitPrune == leaf \in [Leaves -> Vals] /\ prune \in [Leaves -> BOOLEAN]
Next == UNCHANGED <<leaf, prune>>
\* search.cpp: `if (doFutilityPruning && moveIsQuiet && bestValue > lost_in(MAX_DEPTH) && !move_gives_check) continue;`
\* - the guard on bestValue is the repair cccf193: while every move searched so far is mated nothing may be skipped.
MaySkip(ch, best) == Len(ch) = D /\ prune[ch] /\ (Variant = "no_guard" \/ best > -(MATE - MAXD))

Max(S) == CHOOSE x \in S : \A y \in S : y <= x
IsLeaf(n) == Len(n) = D
LeafVal(n) == leaf[n]

RECURSIVE MM(_)
MM(n) == IF IsLeaf(n) THEN LeafVal(n) ELSE Max({StepV(-MM(Append(n, c))) : c \in 1..B})

\* the engine's loop over the children c..B of node n with the running (alpha, best)
RECURSIVE AB(_, _, _), Loop(_, _, _, _, _, _)
AB(n, alpha, beta) == IF IsLeaf(n) THEN LeafVal(n) ELSE Loop(n, 1, alpha, beta, -INF, beta # alpha + 1)
Loop(n, c, alpha, beta, best, pv) ==
  IF c > B THEN (IF best = -INF THEN alpha ELSE best)   \* every move skipped: fail low (repair cad9cba; with the guard the first move is never skipped)
  ELSE IF MaySkip(Append(n, c), best) THEN Loop(n, c + 1, alpha, beta, best, pv)
  ELSE LET ch == Append(n, c)
           r0 == -AB(ch, -(alpha + 1), -alpha)
           r1 == IF pv /\ alpha < r0 /\ r0 < beta /\ Variant # "no_research" THEN -AB(ch, -beta, -alpha) ELSE r0
           r == IF Variant = "step_toward_mate" THEN (IF IsMate(r1) THEN (IF r1 > 0 THEN r1 + 1 ELSE r1 - 1) ELSE r1)
                ELSE IF Variant = "no_step" THEN r1
                ELSE StepV(r1)
       IN IF r > best THEN
            (IF r > alpha THEN (IF r >= beta THEN r ELSE Loop(n, c + 1, r, beta, r, pv))
             ELSE Loop(n, c + 1, alpha, beta, r, pv))
          ELSE Loop(n, c + 1, alpha, beta, best, pv)

\* ---------------------------------------------------------------- model values (AlphaBeta.cfg)
MCVals == {-10, -1, 0, 1}
MCVals3 == {-10, 0, 1}
MCVals2 == {-10, 0}
MCWindows == {<<-11, 11>>, <<-11, -8>>, <<-9, -8>>, <<-8, -1>>, <<-2, -1>>, <<-1, 0>>, <<-1, 1>>, <<0, 1>>, <<0, 2>>, <<1, 9>>, <<8, 9>>, <<7, 11>>, <<-9, 9>>, <<-2, 2>>,
              <<-10, -9>>, <<9, 10>>, <<-9, -7>>, <<7, 9>>}

Root == <<>>
\* ---------------------------------------------------------------- what the root leaves in the table
\* `go searchmoves ...` restricts the root to a subset S of its moves.  At the end of its move loop search() stores
\* (value, flag, best move): LOWER_BOUND on a cutoff, otherwise - if some move beat the entry alpha - EXACT at a pv node, UPPER_BOUND at
\* a non-pv node.  A stored entry must be a true statement about the POSITION (plain minimax over all its moves), whatever S was:
\* the maximum over a subset is a lower bound only, so a restricted root must not store exact / upper entries (repair 02d6ef3;
\* Variant "store_restricted_root" is the code before it).
RECURSIVE LoopS(_, _, _, _, _, _, _)
LoopS(S, c, alpha, beta, best, pv, n) ==
  IF c > B THEN (IF best = -INF THEN alpha ELSE best)
  ELSE IF c \notin S THEN LoopS(S, c + 1, alpha, beta, best, pv, n)
  ELSE LET ch == Append(n, c)
           r0 == -AB(ch, -(alpha + 1), -alpha)
           r1 == IF pv /\ alpha < r0 /\ r0 < beta THEN -AB(ch, -beta, -alpha) ELSE r0
           r == StepV(r1)
       IN IF r > best THEN
            (IF r > alpha THEN (IF r >= beta THEN r ELSE LoopS(S, c + 1, r, beta, r, pv, n))
             ELSE LoopS(S, c + 1, alpha, beta, r, pv, n))
          ELSE LoopS(S, c + 1, alpha, beta, best, pv, n)
RootValue(S, a, b) == LoopS(S, 1, a, b, -INF, b # a + 1, Root)
StoredFlag(S, v, a, b) ==
  IF v >= b THEN "lower"
  ELSE IF v > a /\ (S = 1..B \/ Variant = "store_restricted_root") THEN (IF b # a + 1 THEN "exact" ELSE "upper")
  ELSE "none"
EntrySound(S, a, b) == LET v == RootValue(S, a, b) f == StoredFlag(S, v, a, b) m == MM(Root) IN
  /\ (f = "lower" => m >= v)
  /\ (f = "exact" => m = v)
  /\ (f = "upper" => m <= v)
TableEntriesSound == \A S \in (SUBSET (1..B)) \ {{}} : \A w \in Windows : EntrySound(S, w[1], w[2])
FailSoft(a, b) == LET v == AB(Root, a, b) m == MM(Root) IN
  /\ (v <= a => m <= v)
  /\ (v >= b => m >= v)
  /\ (a < v /\ v < b => m = v)
Sound == \A w \in Windows : FailSoft(w[1], w[2])
\* full window: the value is exact, hence a mate score at the root is the true distance
FullWindowExact == AB(Root, -INF, INF) = MM(Root)
\* with pruning the value is a heuristic, but a MATE score must stay a true statement (C08): a claimed win is at least that fast,
\* a claimed loss at least that bad - for every choice of skippable moves
MateClaimsSound == LET v == AB(Root, -INF, INF) m == MM(Root) IN
  /\ (v >= MATE - MAXD => m >= v)
  /\ (v <= -(MATE - MAXD) => m <= v)
=============================================================================
