------------------------------- MODULE KPK -------------------------------
(***************************************************************************)
(* King and pawn versus king: the game-theoretic truth as the least        *)
(* fix-point of the win relation (C12).                                    *)
(*                                                                         *)
(* White owns the pawn (black-pawn positions are the colour mirror).  A    *)
(* position is (stm, wk, wp, bk), packed into an integer                   *)
(*    idx = ((stm*64 + wk)*64 + wp)*64 + bk.                               *)
(* The behaviour W_0 = {}, W_{n+1} = W_n \cup StepWin(W_n) runs to the     *)
(* fix-point; at the fix-point the result is serialised for the replay     *)
(* into the engine (every legal position is queried).                      *)
(*                                                                         *)
(* Rules used: kings never adjacent; the side not to move is not in check; *)
(* single and double pawn steps need EMPTY squares (a pawn never jumps     *)
(* over a king); the black king may capture an undefended pawn (draw);     *)
(* stalemate is a draw; on promotion White wins iff a queen or a rook can  *)
(* be placed that the black king cannot capture and that does not          *)
(* stalemate (KQK / KRK with the piece safe are wins: the one trusted      *)
(* chess fact).                                                            *)
(***************************************************************************)
EXTENDS Integers, Sequences, FiniteSets, TLC, Json, IOUtils
CONSTANT PawnFiles
File(s) == s % 8
Rank(s) == s \div 8
Abs(x) == IF x < 0 THEN -x ELSE x
Dist(a, b) == LET df == Abs(File(a) - File(b))  dr == Abs(Rank(a) - Rank(b)) IN IF df > dr THEN df ELSE dr
KingT == [s \in 0..63 |-> {t \in 0..63 : t # s /\ Dist(s, t) = 1}]
PawnAtt == [s \in 0..63 |-> IF Rank(s) = 7 THEN {} ELSE {t \in 0..63 : Rank(t) = Rank(s) + 1 /\ Abs(File(t) - File(s)) = 1}]
Idx(stm, wk, wp, bk) == ((stm * 64 + wk) * 64 + wp) * 64 + bk
IStm(i) == i \div 262144
IWk(i) == (i \div 4096) % 64
IWp(i) == (i \div 64) % 64
IBk(i) == i % 64
PawnSqs == {s \in 8..55 : File(s) \in PawnFiles}
LegalPos(stm, wk, wp, bk) ==
  /\ wk # wp /\ bk # wp /\ Dist(wk, bk) > 1
  /\ (stm = 0 => bk \notin PawnAtt[wp])      \* side not to move is not in check
AllPos == {Idx(stm, wk, wp, bk) : stm \in {0,1}, wk \in 0..63, wp \in PawnSqs, bk \in 0..63}
Positions == {i \in AllPos : LegalPos(IStm(i), IWk(i), IWp(i), IBk(i))}

\* black king legal destination squares
BkMoves(wk, wp, bk) == {t \in KingT[bk] : Dist(t, wk) > 1 /\ t \notin PawnAtt[wp]}

\* lines of a piece on q with the white king as the only possible blocker (the black king is transparent:
\* a square "behind" it is still attacked once it steps there)
Between(a, x, b) == \* x strictly between a and b on a common line
  /\ x # a /\ x # b
  /\ \/ (File(a) = File(b) /\ File(x) = File(a) /\ ((Rank(a) < Rank(x) /\ Rank(x) < Rank(b)) \/ (Rank(b) < Rank(x) /\ Rank(x) < Rank(a))))
     \/ (Rank(a) = Rank(b) /\ Rank(x) = Rank(a) /\ ((File(a) < File(x) /\ File(x) < File(b)) \/ (File(b) < File(x) /\ File(x) < File(a))))
     \/ (Abs(File(a) - File(b)) = Abs(Rank(a) - Rank(b)) /\ Abs(File(a) - File(x)) = Abs(Rank(a) - Rank(x))
           /\ Abs(File(b) - File(x)) = Abs(Rank(b) - Rank(x))
           /\ Dist(a, x) + Dist(x, b) = Dist(a, b))
RookAtt(q, wk, t) == t # q /\ (File(t) = File(q) \/ Rank(t) = Rank(q)) /\ ~Between(q, wk, t)
BishAtt(q, wk, t) == t # q /\ Abs(File(t) - File(q)) = Abs(Rank(t) - Rank(q)) /\ ~Between(q, wk, t)
PromoWins(wk, q, bk, isQueen) ==
  LET att(t) == RookAtt(q, wk, t) \/ (isQueen /\ BishAtt(q, wk, t))
      canCapture == Dist(bk, q) = 1 /\ Dist(wk, q) > 1
      inCheck == att(bk)
      safe == {t \in KingT[bk] : Dist(t, wk) > 1 /\ t # q /\ ~att(t)}
  IN ~canCapture /\ (inCheck \/ safe # {})
WinNow(wk, wp, bk) ==  \* white to move, pawn on the 7th, promotion square empty, a winning Q or R exists
  /\ Rank(wp) = 6 /\ wp + 8 # wk /\ wp + 8 # bk
  /\ (PromoWins(wk, wp + 8, bk, TRUE) \/ PromoWins(wk, wp + 8, bk, FALSE))

WSucc(wk, wp, bk) ==  \* successors (black to move) of a white-to-move position in which the pawn stays a pawn
  {Idx(1, t, wp, bk) : t \in {u \in KingT[wk] : u # wp /\ Dist(u, bk) > 1}}
  \cup (IF Rank(wp) < 6 /\ wp + 8 # wk /\ wp + 8 # bk THEN {Idx(1, wk, wp + 8, bk)} ELSE {})
  \cup (IF Rank(wp) = 1 /\ wp + 8 # wk /\ wp + 8 # bk /\ wp + 16 # wk /\ wp + 16 # bk THEN {Idx(1, wk, wp + 16, bk)} ELSE {})

\* only legal successors count (a white king move may not leave the black king in an impossible check: none exists in KPK,
\* a pawn step may give check - that is a legal black-to-move position)
StepWin(W) ==
  {i \in Positions \ W :
     LET wk == IWk(i) wp == IWp(i) bk == IBk(i) IN
     IF IStm(i) = 0
     THEN WinNow(wk, wp, bk) \/ \E j \in WSucc(wk, wp, bk) : j \in W
     ELSE LET mv == BkMoves(wk, wp, bk) IN
          IF mv = {} THEN bk \in PawnAtt[wp]      \* no move: checkmate iff in check (never happens in KPK), else stalemate
          ELSE /\ wp \notin mv                     \* black may capture the pawn: draw
               /\ \A t \in mv : Idx(0, wk, wp, t) \in W}

VARIABLES W, n
Init == W = {} /\ n = 0
Next == LET D == StepWin(W) IN D # {} /\ W' = W \cup D /\ n' = n + 1
Done == (StepWin(W) = {}) =>
          /\ PrintT("KPK FIXPOINT iterations=" \o ToString(n) \o " wins=" \o ToString(Cardinality(W)) \o " legal=" \o ToString(Cardinality(Positions)))
          /\ JsonSerialize(IOEnv.KPK_OUT, [win |-> W, legal |-> Positions, iterations |-> n])
=============================================================================
