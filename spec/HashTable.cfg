CONSTANTS Size = 4 Keys = {0, 1, 4, 5, 8} MaxOps = 5
INIT Init
NEXT Next
INVARIANTS NoStaleAfterClear HashFullInRange
CHECK_DEADLOCK FALSE
