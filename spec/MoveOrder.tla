------------------------------- MODULE MoveOrder -------------------------------
(***************************************************************************)
(* The move ordering of the search (engine/move_orderer.cpp) as a total    *)
(* preorder on the moves of a position, given the ordering context of a    *)
(* node:                                                                   *)
(*    pv, tt     the first move of the node's principal variation and the  *)
(*               move stored for the position in the transposition table   *)
(*    k1, k2     the node's killer moves                                   *)
(*    prevto     target square of the move that led to the node            *)
(*    quiet[m]   history score + counter-move score of a quiet move        *)
(* Classes, highest first: pv, tt, captures (recaptures on prevto before   *)
(* every other capture, least valuable capturer first; otherwise by the    *)
(* bonus table: winning, equal, losing captures, MVV/LVA inside each),     *)
(* promotions (most valuable piece first; capture-promotions are ranked as *)
(* promotions), killer 1, killer 2, quiet moves by their clamped score.    *)
(* As written in the code: an en-passant capture finds no piece on its     *)
(* target square and is ranked as a quiet move; castling has no moved      *)
(* piece and is ranked as a quiet move.  Both are ranking choices, not     *)
(* errors: the contract the search relies on is the one stated at the end. *)
(***************************************************************************)
EXTENDS ChessText

PV_SCORE == 2000000
TT_SCORE == PV_SCORE - 1
CAPTURE_SCORE == TT_SCORE - 50
PROMOTION_SCORE == CAPTURE_SCORE - 10
KILLER_1_SCORE == PROMOTION_SCORE - 1
KILLER_2_SCORE == KILLER_1_SCORE - 1
MAX_QUIET_SCORE == KILLER_2_SCORE - 1

\* CaptureBonus[captured kind][capturing kind]
CaptureBonus == << <<14,  4,  3,  2,  1,  0>>,     \* captured pawn
                   <<21, 16, 15,  7,  6,  5>>,     \* captured knight
                   <<22, 18, 17, 10,  9,  8>>,     \* captured bishop
                   <<25, 24, 23, 19, 12, 11>>,     \* captured rook
                   <<29, 28, 27, 26, 20, 13>> >>   \* captured queen
MostValue(k) == k
LeastValue(k) == KING - k + 1

Min2(a, b) == IF a < b THEN a ELSE b

\* ctx = [pv, tt, k1, k2 : move or -1, prevto : square, quiet : function from moves to integers]
Score(pos, m, ctx) ==
  LET cas == IsCastle(pos, m)
      moved == IF cas THEN 0 ELSE KindOf(pos.board[MFrom(m)])
      capk == IF cas THEN 0 ELSE KindOf(pos.board[MTo(m)])
      promo == MPromo(m)
  IN IF m = ctx.pv THEN PV_SCORE
     ELSE IF m = ctx.tt THEN TT_SCORE
     ELSE IF capk # 0 /\ promo = 0
          THEN (IF MTo(m) = ctx.prevto THEN CAPTURE_SCORE + 40 + LeastValue(moved)
                ELSE CAPTURE_SCORE + CaptureBonus[capk][moved])
     ELSE IF promo # 0 THEN PROMOTION_SCORE + MostValue(promo)
     ELSE IF m = ctx.k1 THEN KILLER_1_SCORE
     ELSE IF m = ctx.k2 THEN KILLER_2_SCORE
     ELSE Min2(ctx.quiet[m], MAX_QUIET_SCORE)

\* the classes do not overlap: whatever the pieces involved, a capture ranks below the table move and above every
\* promotion, a promotion above the killers, a killer above every quiet move
ASSUME /\ \A moved \in 1..6 : CAPTURE_SCORE + 40 + LeastValue(moved) < TT_SCORE
       /\ \A c \in 1..5, a \in 1..6 : CAPTURE_SCORE <= CAPTURE_SCORE + CaptureBonus[c][a] /\ CAPTURE_SCORE + CaptureBonus[c][a] < CAPTURE_SCORE + 40
       /\ \A k \in 2..5 : PROMOTION_SCORE + MostValue(k) < CAPTURE_SCORE /\ PROMOTION_SCORE + MostValue(k) > KILLER_1_SCORE
       /\ KILLER_2_SCORE < KILLER_1_SCORE /\ MAX_QUIET_SCORE < KILLER_2_SCORE
\* the bonus table orders captures as documented: gain before equal before loss (by the usual 1/3/3/5/9 scale), and inside
\* gain / loss by victim first, then by the less valuable capturer
Val(k) == <<1, 3, 3, 5, 9, 100>>[k]
ASSUME \A c1, c2 \in 1..5, a1, a2 \in 1..5 :
          (Val(c1) > Val(a1) /\ Val(c2) < Val(a2)) => CaptureBonus[c1][a1] > CaptureBonus[c2][a2]

(***************************************************************************)
(* The contract of order_moves: the list after the call is a permutation   *)
(* of the list before it (no move lost, none duplicated, none invented)    *)
(* and its scores do not increase.                                         *)
(***************************************************************************)
IsPermutation(a, b) == /\ Len(a) = Len(b)
                       /\ \A i \in 1..Len(a) : Cardinality({j \in 1..Len(a) : a[j] = a[i]}) = Cardinality({j \in 1..Len(b) : b[j] = a[i]})
Sorted(pos, out, ctx) == \A i \in 1..(Len(out) - 1) : Score(pos, out[i], ctx) >= Score(pos, out[i + 1], ctx)
=============================================================================
