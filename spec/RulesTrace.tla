------------------------------- MODULE RulesTrace -------------------------------
(***************************************************************************)
(* Trace monitor binding the engine's Position / move generator / text     *)
(* functions to Chess, ChessText and ChessGame (code -> spec direction).   *)
(*                                                                         *)
(* The harness drives the real engine and logs one ndjson line per         *)
(* operation (reset, do, undo, donull, undonull, commit) and per           *)
(* observation (pos = everything the engine says about the current         *)
(* position; mv = everything it says about one legal move).  The monitor   *)
(* advances the specification's own game state with the specification's    *)
(* own operators and recomputes what every observation must be.  It        *)
(* ALWAYS consumes the next line: a discrepancy is printed as              *)
(*   VIOL {"prop":..,"kind":..,"line":..,...}                               *)
(* and the monitor re-synchronises from the logged FEN, so the rest of the *)
(* trace is still checked.  Counters of the comparisons actually evaluated *)
(* are printed at the end (CNT ...) so that the runner can refuse vacuous  *)
(* runs.                                                                   *)
(***************************************************************************)
EXTENDS ChessGame, Json, IOUtils

T == ndJsonDeserialize(IOEnv.TRACE)

VARIABLES l, st
vars == <<l, st>>

Has(ev, f) == f \in DOMAIN ev
ToSet(seq) == {seq[i] : i \in 1..Len(seq)}
NoObs == [none |-> TRUE]

CntKeys == {"reset", "pos", "mv", "do", "undo", "donull", "undonull", "searched", "searched_aborted",
            "legal_cmp", "fen_cmp", "pred_cmp", "key_cmp", "cls_cmp", "uci_cmp", "enc_cmp", "san_cmp", "undo_cmp", "rt_cmp", "wf_cmp",
            "n_ep", "n_check", "n_castle", "n_promo", "n_mate", "n_stale", "n_rep", "n_rep3", "n_r50", "n_insuff",
            "n_epmove", "n_castlemove", "n_promomove", "n_checkmove", "n_capmove", "n_revisit", "viol"}
Cnt0 == [k \in CntKeys |-> 0]
Bump(c, ks) == [k \in CntKeys |-> IF k \in ks THEN c[k] + 1 ELSE c[k]]

Init0 == [g |-> NewGame(StartPos), legal |-> {}, legalKnown |-> FALSE,
          keyOf |-> <<>>, idOf |-> <<>>, pkOf |-> <<>>, ppOf |-> <<>>,
          obsStack |-> <<>>, expect |-> NoObs, lastOp |-> "reset", cnt |-> Cnt0]

\* finite maps as functions with growing domains
Lookup(f, k) == IF k \in DOMAIN f THEN f[k] ELSE "?"
Store(f, k, v) == IF k \in DOMAIN f THEN f ELSE (k :> v) @@ f

PawnPlacement(b) == [s \in Sq |-> IF KindOf(b[s]) = PAWN THEN b[s] ELSE 0]
BoardStr(b) == LET RECURSIVE go(_)
                   go(s) == IF s > 63 THEN "" ELSE (IF b[s] = 0 THEN "." ELSE PieceCh[b[s]]) \o go(s + 1)
               IN go(0)

V(line, prop, kind, fen, detail) == [line |-> line, prop |-> prop, kind |-> kind, fen |-> fen, detail |-> detail]

\* ---------------------------------------------------------------- pos
\* which property a wrong FEN is charged to depends on the operation that produced the position
FenProp(op) == IF op \in {"undo", "undonull"} THEN "C03" ELSE IF op = "reset" THEN "C16" ELSE "C02"

ObsFields == {"fen", "key", "pkey", "pl", "bb", "rep", "rep3", "r50", "mat", "draw", "chk", "ev", "hist"}

ProcessPos(s, ev, ln) ==
  LET g0 == s.g
      specFen == Fen(g0.cur)
      fenOk == specFen = ev.fen
      \* re-synchronise on a FEN discrepancy so that the rest of the trace is checked; when only the clocks differ the
      \* specification keeps its own clocks (the game history is what it is), so later fifty-move answers are still judged
      engPos == IF fenOk THEN g0.cur ELSE ParseFen(ev.fen)
      cur == IF fenOk THEN g0.cur ELSE IF Id(engPos) = Id(g0.cur) THEN g0.cur ELSE engPos
      g == IF fenOk THEN g0 ELSE [g0 EXCEPT !.cur = cur, !.past = [g0.past EXCEPT ![Len(g0.past)] = Id(cur)]]
      vFen == IF fenOk THEN <<>> ELSE <<V(ln, FenProp(s.lastOp), "fen", ev.fen, [expected |-> specFen, op |-> s.lastOp])>>
      inGame == g.nulls = 0
      \* ---- legal move set (C01)
      hasMoves == Has(ev, "moves")
      L == IF hasMoves THEN Legal(cur) ELSE {}
      LU == {Uci(m) : m \in L}
      EU == IF hasMoves THEN ToSet(ev.moves) ELSE {}
      vLegal == IF ~hasMoves THEN <<>> ELSE
                (IF LU \ EU # {} THEN <<V(ln, "C01", "missing", ev.fen, [moves |-> LU \ EU])>> ELSE <<>>) \o
                (IF EU \ LU # {} THEN <<V(ln, "C01", "extra", ev.fen, [moves |-> EU \ LU])>> ELSE <<>>) \o
                (IF Len(ev.moves) # Cardinality(EU) THEN <<V(ln, "C01", "duplicate", ev.fen, [n |-> Len(ev.moves), distinct |-> Cardinality(EU)])>> ELSE <<>>)
      \* ---- predicates (C07), only for positions of a game (not inside a null move)
      chk == InCheck(cur)
      doPred == inGame /\ Has(ev, "chk")
      \* history predicates are recomputed from the specification's OWN game state (g0, before any re-synchronisation):
      \* if the engine's clock or position went wrong, its answers about this game history are wrong too
      exp == [chk |-> chk,
              rep |-> Repeated(g0), rep3 |-> Threefold(g0), r50 |-> Rule50(g0),
              mat |-> ~Insufficient(cur), draw |-> Rule50(g0) \/ Threefold(g0) \/ Insufficient(cur)]
      predBad == IF ~doPred THEN {} ELSE {f \in {"chk", "rep", "rep3", "r50", "mat", "draw"} : ev[f] # exp[f]}
      mateBad == IF doPred /\ hasMoves /\ Has(ev, "mate")
                 THEN {f \in {"mate", "stale"} : ev[f] # (IF f = "mate" THEN chk /\ L = {} ELSE ~chk /\ L = {})}
                 ELSE {}
      vPred == IF predBad \cup mateBad = {} THEN <<>> ELSE
               <<V(ln, "C07", "predicate", ev.fen,
                   [wrong |-> predBad \cup mateBad, hmc |-> g0.cur.hmc, occurrences |-> Occurrences(g0), plies |-> Len(g0.past)])>>
      \* ---- keys (C04)
      hasKey == Has(ev, "key")
      id == Id(cur)
      pp == PawnPlacement(cur.board)
      vKey == IF ~hasKey THEN <<>> ELSE
              (IF ev.key # ev.key2 \/ ev.pkey # ev.pkey2
               THEN <<V(ln, "C04", "incremental_ne_scratch", ev.fen, [key |-> ev.key, key2 |-> ev.key2, pkey |-> ev.pkey, pkey2 |-> ev.pkey2, op |-> s.lastOp])>> ELSE <<>>) \o
              (IF id \in DOMAIN s.keyOf /\ s.keyOf[id] # ev.key
               THEN <<V(ln, "C04", "same_position_different_key", ev.fen, [key |-> ev.key, earlier |-> s.keyOf[id]])>> ELSE <<>>) \o
              (IF ev.key \in DOMAIN s.idOf /\ s.idOf[ev.key] # id
               THEN <<V(ln, "C04", "different_position_same_key", ev.fen, [key |-> ev.key])>> ELSE <<>>) \o
              (IF pp \in DOMAIN s.pkOf /\ s.pkOf[pp] # ev.pkey
               THEN <<V(ln, "C04", "same_pawns_different_pawnkey", ev.fen, [pkey |-> ev.pkey, earlier |-> s.pkOf[pp]])>> ELSE <<>>) \o
              (IF ev.pkey \in DOMAIN s.ppOf /\ s.ppOf[ev.pkey] # pp
               THEN <<V(ln, "C04", "different_pawns_same_pawnkey", ev.fen, [pkey |-> ev.pkey])>> ELSE <<>>)
      revisit == hasKey /\ id \in DOMAIN s.keyOf
      \* ---- undo restores every observable (C03)
      doUndo == s.expect # NoObs
      undoBad == IF ~doUndo THEN {} ELSE
                 {f \in ObsFields : Has(ev, f) /\ Has(s.expect, f) /\ ev[f] # s.expect[f]}
                 \cup (IF hasMoves /\ Has(s.expect, "moves") /\ ToSet(s.expect.moves) # EU THEN {"moves"} ELSE {})
      vUndo == IF undoBad = {} THEN <<>> ELSE
               <<V(ln, "C03", "not_restored", ev.fen, [fields |-> undoBad, before |-> s.expect.fen, op |-> s.lastOp])>>
      \* ---- redundant representations (piece lists, bitboards) against the spec board: informational
      reprBad == Has(ev, "pl") /\ (ev.pl # BoardStr(cur.board) \/ ev.bb # BoardStr(cur.board))
      vRepr == IF reprBad THEN <<V(ln, "X", "representation", ev.fen, [pl |-> ev.pl, bb |-> ev.bb])>> ELSE <<>>
      \* ---- capacity bookkeeping of the history (C10 observation): engine counter = spec history length
      vHist == IF Has(ev, "hist") /\ inGame /\ ev.hist # Len(g.past)
               THEN <<V(ln, "X", "history_length", ev.fen, [engine |-> ev.hist, spec |-> Len(g.past)])>> ELSE <<>>
      \* ---- FEN round trip (C16): loading the printed FEN gives an identical position printing the identical FEN
      hasRt == Has(ev, "fen2")
      rtBad == IF ~hasRt THEN {} ELSE
               (IF ev.fen2 # ev.fen THEN {"fen"} ELSE {}) \cup (IF ~ev.eq THEN {"equality"} ELSE {}) \cup
               (IF Has(ev, "pl") /\ ev.pl2 # ev.pl THEN {"pieces"} ELSE {}) \cup (IF ev.key2 # ev.key \/ ev.pkey2 # ev.pkey THEN {"keys"} ELSE {})
      vRt == IF rtBad = {} THEN <<>> ELSE <<V(ln, "C16", "fen_roundtrip", ev.fen, [differs |-> rtBad, fen2 |-> ev.fen2])>>
      viol == vFen \o vLegal \o vPred \o vKey \o vUndo \o vRepr \o vHist \o vRt
      bumps == {"pos", "fen_cmp"} \cup (IF hasMoves THEN {"legal_cmp"} ELSE {}) \cup (IF doPred THEN {"pred_cmp"} ELSE {})
               \cup (IF hasKey THEN {"key_cmp"} ELSE {}) \cup (IF doUndo THEN {"undo_cmp"} ELSE {}) \cup (IF hasRt THEN {"rt_cmp"} ELSE {})
               \cup (IF cur.ep # -1 THEN {"n_ep"} ELSE {}) \cup (IF chk THEN {"n_check"} ELSE {})
               \cup (IF hasMoves /\ \E m \in L : IsCastle(cur, m) THEN {"n_castle"} ELSE {})
               \cup (IF hasMoves /\ \E m \in L : MPromo(m) # 0 THEN {"n_promo"} ELSE {})
               \cup (IF hasMoves /\ L = {} /\ chk THEN {"n_mate"} ELSE {}) \cup (IF hasMoves /\ L = {} /\ ~chk THEN {"n_stale"} ELSE {})
               \cup (IF doPred /\ exp.rep THEN {"n_rep"} ELSE {}) \cup (IF doPred /\ exp.rep3 THEN {"n_rep3"} ELSE {})
               \cup (IF doPred /\ exp.r50 THEN {"n_r50"} ELSE {}) \cup (IF doPred /\ ~exp.mat THEN {"n_insuff"} ELSE {})
               \cup (IF revisit THEN {"n_revisit"} ELSE {}) \cup (IF viol # <<>> THEN {"viol"} ELSE {})
  IN [st |-> [s EXCEPT !.g = g, !.legal = L, !.legalKnown = hasMoves,
                       !.keyOf = IF hasKey THEN Store(s.keyOf, id, ev.key) ELSE s.keyOf,
                       !.idOf = IF hasKey THEN Store(s.idOf, ev.key, id) ELSE s.idOf,
                       !.pkOf = IF hasKey THEN Store(s.pkOf, pp, ev.pkey) ELSE s.pkOf,
                       !.ppOf = IF hasKey THEN Store(s.ppOf, ev.pkey, pp) ELSE s.ppOf,
                       !.expect = NoObs,
                       !.obsStack = IF Len(s.obsStack) = Len(g.stack) + 1 THEN s.obsStack
                                    ELSE IF Len(s.obsStack) = Len(g.stack) THEN Append(s.obsStack, ev)
                                    ELSE s.obsStack,
                       !.cnt = Bump(s.cnt, bumps)],
      viol |-> viol]

\* ---------------------------------------------------------------- mv : one legal move of the current position
ProcessMv(s, ev, ln) ==
  LET cur == s.g.cur
      wf == WellFormedUci(ev.m)
      m == IF wf THEN ParseUci(ev.m) ELSE -1
      known == wf /\ s.legalKnown /\ m \in s.legal
      fen == Fen(cur)
      \* ---- classification (C15)
      hasCls == known /\ Has(ev, "cap")
      clsBad == IF ~hasCls THEN {} ELSE
                (IF ev.cap # IsCapture(cur, m) THEN {"capture"} ELSE {}) \cup
                (IF ev.quiet # IsQuiet(cur, m) THEN {"quiet"} ELSE {}) \cup
                (IF ev.gchk # GivesCheck(cur, m) THEN {"gives_check"} ELSE {})
      vCls == IF clsBad = {} THEN <<>> ELSE
              <<V(ln, "C15", "classification", fen, [m |-> ev.m, wrong |-> clsBad, cap |-> ev.cap, quiet |-> ev.quiet, gchk |-> ev.gchk,
                   castle |-> IsCastle(cur, m), promo |-> MPromo(m), ep |-> IsEnPassant(cur, m)])>>
      \* ---- UCI text round trip (C16): the engine parsed its own text back to the same move
      hasUci == known /\ Has(ev, "uci2")
      vUci == IF hasUci /\ ev.uci2 # ev.m THEN <<V(ln, "C16", "uci_roundtrip", fen, [m |-> ev.m, back |-> ev.uci2])>> ELSE <<>>
      \* ---- packed encoding (C16): fields decoded by the engine equal the move's fields
      hasEnc == known /\ Has(ev, "enc")
      castle == IsCastle(cur, m)
      encOk == IF ~hasEnc THEN TRUE
               ELSE IF castle THEN ev.enc[4] = (IF MTo(m) > MFrom(m) THEN 1 ELSE 2)
               ELSE ev.enc[1] = MFrom(m) /\ ev.enc[2] = MTo(m) /\ ev.enc[3] = MPromo(m) /\ ev.enc[4] = 0
      vEnc == IF encOk THEN <<>> ELSE <<V(ln, "C16", "encoding", fen, [m |-> ev.m, enc |-> ev.enc])>>
      \* ---- SAN (C17)
      hasSan == known /\ Has(ev, "san")
      den == IF hasSan THEN SanRead(cur, s.legal, ev.san) ELSE {}
      vSan == IF ~hasSan THEN <<>> ELSE
              (IF den # {m} THEN <<V(ln, "C17", IF den = {} THEN "san_denotes_nothing" ELSE "san_ambiguous_or_wrong", fen,
                                     [m |-> ev.m, san |-> ev.san, denotes |-> {Uci(x) : x \in den}])>> ELSE <<>>) \o
              (IF ev.san2 # ev.m THEN <<V(ln, "C17", "san_not_parsed_back", fen, [m |-> ev.m, san |-> ev.san, back |-> ev.san2])>> ELSE <<>>)
      vUnknown == IF wf /\ s.legalKnown /\ ~known THEN <<V(ln, "X", "mv_not_in_spec_legal", fen, [m |-> ev.m])>> ELSE <<>>
      viol == vCls \o vUci \o vEnc \o vSan \o vUnknown
      bumps == {"mv"} \cup (IF hasCls THEN {"cls_cmp"} ELSE {}) \cup (IF hasUci THEN {"uci_cmp"} ELSE {})
               \cup (IF hasEnc THEN {"enc_cmp"} ELSE {}) \cup (IF hasSan THEN {"san_cmp"} ELSE {})
               \cup (IF known /\ IsEnPassant(cur, m) THEN {"n_epmove"} ELSE {})
               \cup (IF known /\ castle THEN {"n_castlemove"} ELSE {})
               \cup (IF known /\ MPromo(m) # 0 THEN {"n_promomove"} ELSE {})
               \cup (IF known /\ GivesCheck(cur, m) THEN {"n_checkmove"} ELSE {})
               \cup (IF known /\ IsCapture(cur, m) THEN {"n_capmove"} ELSE {})
               \cup (IF viol # <<>> THEN {"viol"} ELSE {})
  IN [st |-> [s EXCEPT !.cnt = Bump(s.cnt, bumps)], viol |-> viol]

\* ---------------------------------------------------------------- operations
ProcessOp(s, ev, ln) ==
  CASE ev.e = "reset" ->
         LET p == ParseFen(ev.fen) IN
         [st |-> [s EXCEPT !.g = NewGame(p), !.legal = {}, !.legalKnown = FALSE, !.obsStack = <<>>, !.expect = NoObs,
                           !.lastOp = "reset", !.cnt = Bump(s.cnt, {"reset"})], viol |-> <<>>]
    [] ev.e = "do" ->
         LET wf == WellFormedUci(ev.m)
             m == IF wf THEN ParseUci(ev.m) ELSE 0
             ok == wf /\ s.g.cur.board[MFrom(m)] # 0 /\ ColorOf(s.g.cur.board[MFrom(m)]) = s.g.cur.stm
             \* a move the spec cannot interpret: keep the position, the next pos event re-synchronises
             g2 == IF ok THEN Do(s.g, m) ELSE [s.g EXCEPT !.past = Append(s.g.past, Id(s.g.cur)), !.stack = Append(s.g.stack, Frame(s.g))]
             \* a session generator may ask for a well-formedness witness: the move is legal and the game is not over before it
             wfBad == Has(ev, "wf") /\ ok /\ (LET L == Legal(s.g.cur) IN m \notin L \/ GameOver(s.g, L))
         IN [st |-> [s EXCEPT !.g = g2, !.legal = {}, !.legalKnown = FALSE, !.expect = NoObs, !.lastOp = "do",
                              !.cnt = Bump(s.cnt, {"do"} \cup (IF Has(ev, "wf") THEN {"wf_cmp"} ELSE {}))],
             viol |-> (IF ok THEN <<>> ELSE <<V(ln, "X", "uninterpretable_move", Fen(s.g.cur), [m |-> ev.m])>>)
                      \o (IF wfBad THEN <<V(ln, "X", "illformed_session", Fen(s.g.cur), [m |-> ev.m, hmc |-> s.g.cur.hmc, occurrences |-> Occurrences(s.g)])>> ELSE <<>>)]
    [] ev.e = "donull" ->
         [st |-> [s EXCEPT !.g = DoNull(s.g), !.legal = {}, !.legalKnown = FALSE, !.expect = NoObs, !.lastOp = "donull", !.cnt = Bump(s.cnt, {"donull"})],
          viol |-> <<>>]
    [] ev.e \in {"undo", "undonull"} ->
         IF s.g.stack = <<>> THEN [st |-> s, viol |-> <<V(ln, "X", "undo_on_empty_stack", Fen(s.g.cur), [e |-> ev.e])>>]
         ELSE LET g2 == Undo(s.g)
                  n == Len(g2.stack)
                  hasObs == Len(s.obsStack) > n
              IN [st |-> [s EXCEPT !.g = g2, !.legal = {}, !.legalKnown = FALSE,
                                   !.expect = IF hasObs THEN s.obsStack[n + 1] ELSE NoObs,
                                   !.obsStack = SubSeq(s.obsStack, 1, n),
                                   !.lastOp = ev.e, !.cnt = Bump(s.cnt, {ev.e})],
                  viol |-> <<>>]
    [] ev.e = "commit" ->
         [st |-> [s EXCEPT !.g = Commit(s.g), !.obsStack = <<>>], viol |-> <<>>]
    [] ev.e = "searched" ->     \* a search ran on a copy of the current position: the move it announced is a move of this position
         [st |-> [s EXCEPT !.cnt = Bump(s.cnt, {"searched"} \cup (IF ev.aborted THEN {"searched_aborted"} ELSE {}))],
          viol |-> IF WellFormedUci(ev.bestmove) /\ ParseUci(ev.bestmove) \in Legal(s.g.cur) THEN <<>>
                   ELSE <<V(ln, "C05", "illegal_bestmove", Fen(s.g.cur), [bestmove |-> ev.bestmove, aborted |-> ev.aborted])>>]
    [] OTHER -> [st |-> s, viol |-> <<V(ln, "X", "unknown_event", "", [e |-> ev.e])>>]

Process(s, ev, ln) ==
  IF ev.e = "pos" THEN ProcessPos(s, ev, ln)
  ELSE IF ev.e = "mv" THEN ProcessMv(s, ev, ln)
  ELSE ProcessOp(s, ev, ln)

Report(viol) == \A i \in 1..Len(viol) : PrintT("VIOL " \o ToJson(viol[i]))

Init == l = 1 /\ st = Init0
Next == /\ l <= Len(T)
        /\ \E r \in {Process(st, T[l], l)} :
             /\ st' = r.st
             /\ Report(r.viol)
        /\ l' = l + 1

\* printed once, when the whole trace has been consumed
Done == (l = Len(T) + 1) => PrintT("CNT " \o ToJson(st.cnt))
Consumed == TLCGet("stats").diameter = Len(T) + 1
=============================================================================
