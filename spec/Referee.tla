------------------------------- MODULE Referee -------------------------------
(***************************************************************************)
(* The match referee of tools/regression (main.cpp game()): two engines    *)
(* are asked for moves in turn while the game is not over; the game is     *)
(* over when the side to move is checkmated or stalemated, when the        *)
(* position is a draw by the rules the engine library implements (fifty    *)
(* moves, threefold repetition, insufficient material), or when a clock    *)
(* has run out.  The result: a flag fall loses, checkmate loses for the    *)
(* side to move, everything else is a draw; checkmate overrides the clock. *)
(* The game record (PGN) carries the moves in SAN, numbered, and the       *)
(* result twice (tag and movetext end).                                    *)
(*                                                                         *)
(* As a state machine over ChessGame: state = game so far, clocks, phase.  *)
(***************************************************************************)
EXTENDS RefereeDefs

VARIABLES game, flags, phase     \* phase: "playing" | "ended"
CONSTANTS Root, MaxPlies       \* the exhaustive design run starts from a small root and is bounded in plies
Init == game = NewGame(ParseFen(Root)) /\ flags = [c \in {0, 1} |-> FALSE] /\ phase = "playing"
\* the engine to move answers with a legal move within its time
Move(m) == /\ phase = "playing" /\ ~Over(game) /\ ~flags[0] /\ ~flags[1] /\ m \in Legal(game.cur)
           /\ game' = Commit(Do(game, m)) /\ UNCHANGED <<flags, phase>>
\* ... or oversteps the time while thinking (the move is still played and recorded)
MoveLate(m) == /\ phase = "playing" /\ ~Over(game) /\ ~flags[0] /\ ~flags[1] /\ m \in Legal(game.cur)
               /\ game' = Commit(Do(game, m)) /\ flags' = [flags EXCEPT ![game.cur.stm] = TRUE] /\ UNCHANGED phase
End == /\ phase = "playing" /\ (Over(game) \/ flags[0] \/ flags[1]) /\ phase' = "ended" /\ UNCHANGED <<game, flags>>
Next == (\E m \in Legal(game.cur) : Move(m) \/ MoveLate(m)) \/ End
Spec == Init /\ [][Next]_<<game, flags, phase>>
Bounded == Len(game.past) <= MaxPlies + 1

\* design properties (checked by TLC from small roots in RefereeMC.cfg)
\* a game that has ended was over, or a flag had fallen; at most one flag falls; no move is played in a finished game
EndedOnlyWhenOver == phase = "ended" => (Over(game) \/ flags[0] \/ flags[1])
OneFlag == ~(flags[0] /\ flags[1])
\* the recorded result never awards the game to the side that was checkmated or whose flag fell without being mated
ResultSound == phase = "ended" =>
   LET r == OutcomeWithFlags(game, flags) IN
     /\ (Legal(game.cur) = {} /\ InCheck(game.cur) => r = (IF game.cur.stm = 0 THEN "0-1" ELSE "1-0"))
     /\ (~(Legal(game.cur) = {} /\ InCheck(game.cur)) /\ flags[0] => r = "0-1")
     /\ (~(Legal(game.cur) = {} /\ InCheck(game.cur)) /\ flags[1] => r = "1-0")
     /\ (~flags[0] /\ ~flags[1] /\ ~(Legal(game.cur) = {} /\ InCheck(game.cur)) => r = "1/2-1/2")
=============================================================================
