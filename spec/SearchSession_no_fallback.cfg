CONSTANTS MaxDepth = 3 NodesPerIter = 2 DepthLimits = {0, 2, 5} RootMoves = {"m1", "m2", "m3"}
          SearchMoves = {{}, {"m2", "m3"}} MaxGos = 2
          ResetInGo = FALSE BestFallback = FALSE ClampDepth = TRUE TTMoveGuard = TRUE PrunedValue = TRUE LimitPollOverwrites = FALSE RunningGuard = FALSE JoinThread = TRUE WithQuit = FALSE
SPECIFICATION FairSpec
INVARIANTS BestIsRootMove BestInSearchMoves OneBestPerGo InfoDepthsConsecutive DepthWithinLimit PrevMovesIndexInBounds NoMateZero StopPrompt StopNeverLost
PROPERTIES NoIterationStartsAfterStop StopAnswered GoAnswered ReadyAnswered
CHECK_DEADLOCK FALSE
