------------------------------- MODULE TimeGen -------------------------------
(* Generator of the clock-state grid for C20 (spec -> code); see TimeAlloc. *)
EXTENDS TimeAlloc
\* ---- generator (spec -> code): one chain per (inc, movestogo, ply, side); remaining times increasing
CONSTANT RandomRems, RandomClocks     \* extra seeded values per chain / extra seeded (inc, mtg, ply) combinations
VARIABLE chain
\* every game ply once: the importance curve and everything keyed on the ply is read at each of its arguments
PlySweep == {<<i, m, p, s>> : i \in {0, 2000}, m \in {0, 40}, p \in 0..1000, s \in {0, 1}}
SweepRems == {0, 1, 1000, 60000, 300000, 3600000}
GInit == chain \in (PlySweep \cup {<<i, m, p, s>> : i \in IncBoundary, m \in MtgBoundary, p \in PlyBoundary, s \in {0, 1}}
                    \cup {<<i, m, p, s>> : i \in RandomSubset(RandomClocks, 0..600000), m \in RandomSubset(3, 0..200), p \in RandomSubset(3, 0..1000), s \in {0, 1}})
GNext == UNCHANGED chain
\* +1, +10%, x2 steps around every boundary value, plus seeded values
Rems == LET base == RemBoundary \cup RandomSubset(RandomRems, 0..DAY)
        IN {r \in base \cup {b + 1 : b \in base} \cup {b + b \div 10 : b \in base} \cup {2 * b : b \in base} : r <= DAY}
GEmit == PrintT("CLK " \o ToString(chain[1]) \o " " \o ToString(chain[2]) \o " " \o ToString(chain[3]) \o " " \o ToString(chain[4]) \o " | "
                \o Join(SortedSeq(IF chain \in PlySweep /\ chain[3] \notin PlyBoundary THEN SweepRems ELSE Rems)))
=============================================================================
