------------------------------- MODULE ChessGameMC -------------------------------
(***************************************************************************)
(* Exhaustive exploration of the game / make-unmake machine (ChessGame)    *)
(* from small-material roots: every legal move, null moves and unmakes to  *)
(* a bounded depth.  This checks the SPECIFICATION itself (the oracle of   *)
(* C02 C03 C07 C16) at design level:                                       *)
(*   SaneAlways      every reachable position is a sane chess position     *)
(*   FenRoundTrip    ParseFen(Fen(p)) = p on every reachable position      *)
(*   UndoRestores    Undo(Do(g, m)) = g and Undo(DoNull(g)) = g            *)
(*   RepetitionSane  Threefold => Repeated; occurrences never exceed the   *)
(*                   history length; a position reached by an irreversible *)
(*                   move has not occurred before                          *)
(*   MirrorCommutes  Legal(Mirror(p)) = MirrorMove(Legal(p)) and           *)
(*                   Apply commutes with Mirror (the rules treat the       *)
(*                   colours alike - the basis of C13's mirror operator)   *)
(*   CapacityScaled  with the history capacity scaled down to Cap, the     *)
(*                   shortest session that exceeds a flat table is found   *)
(*                   (design counterexample for C10), while the ring       *)
(*                   discipline (entries since the last irreversible move) *)
(*                   always fits                                           *)
(***************************************************************************)
EXTENDS ChessGame
CONSTANTS Roots, MaxDepth, Cap, FlatHistory

VARIABLES g, depth
vars == <<g, depth>>
Init == \E r \in Roots : g = NewGame(ParseFen(r)) /\ depth = 0
DoA == /\ depth < MaxDepth
       /\ \E m \in Legal(g.cur) : g' = Do(g, m) /\ depth' = depth + 1
NullA == /\ depth < MaxDepth /\ g.nulls = 0 /\ ~InCheck(g.cur)
         /\ g' = DoNull(g) /\ depth' = depth + 1
UndoA == /\ g.stack # <<>> /\ g' = Undo(g) /\ depth' = depth - 1
Next == DoA \/ NullA \/ UndoA

SaneAlways == g.nulls > 0 \/ SanePosition(g.cur)
FenRoundTrip == ParseFen(Fen(g.cur)) = g.cur
UndoRestores ==
  /\ \A m \in Legal(g.cur) : Undo(Do(g, m)) = g
  /\ (~InCheck(g.cur) => Undo(DoNull(g)) = g)
RepetitionSane ==
  /\ (Threefold(g) => Repeated(g))
  /\ Occurrences(g) <= Len(g.past)
  /\ (g.nulls = 0 /\ g.cur.hmc = 0 /\ Len(g.past) > 1 => ~Repeated(g))
MirrorCommutes ==
  g.nulls > 0 \/
  LET p == g.cur  q == Mirror(p) IN
  /\ Legal(q) = {MirrorMove(m) : m \in Legal(p)}
  /\ \A m \in Legal(p) : [Apply(q, MirrorMove(m)) EXCEPT !.fmn = 0] = [Mirror(Apply(p, m)) EXCEPT !.fmn = 0]   \* the move number counts Black's moves
  /\ InCheck(q) = InCheck(p) /\ Insufficient(q) = Insufficient(p)
\* history capacity, scaled down: a flat table of Cap entries overflows after Cap - 1 moves; a ring needs only hmc + 1
CapacityScaled == IF FlatHistory THEN Len(g.past) <= Cap ELSE g.cur.hmc + 1 <= Cap \/ g.nulls > 0
=============================================================================
