------------------------------- MODULE SearchSession -------------------------------
(***************************************************************************)
(* The two-thread search session of the engine, one action per critical    *)
(* section of the code (uci.cpp go/stop/isready, search.cpp go /           *)
(* iter_search / search): the UCI reader thread and the detached search    *)
(* thread share the stop flag, the best move and the output stream.        *)
(*                                                                         *)
(* The tree search itself is abstract: an iteration is NodesPerIter node   *)
(* visits, each of which polls the flag; it ends with a result class.  The *)
(* transposition table is one abstract slot for the root whose move field  *)
(* may hold anything (Poison).                                             *)
(*                                                                         *)
(* Constants select the behaviour AS WRITTEN at the pinned commit or the   *)
(* repaired one, so the same specification documents each defect and       *)
(* checks its repair:                                                      *)
(*   ResetInGo     TRUE: Search::go() executes stop := FALSE (lost stop)   *)
(*   BestFallback  TRUE: best move initialised to a root move (repaired)   *)
(*   ClampDepth    TRUE: depth limit clamped to MaxDepth (repaired)        *)
(*   TTMoveGuard   TRUE: a table move is used only if it is a root move    *)
(*   PrunedValue   TRUE: an all-moves-pruned node returns a bounded value  *)
(*                 (repaired); FALSE: it returns -infinity, which the      *)
(*                 parent reads as a mate score                            *)
(*   LimitPollOverwrites TRUE: the limit poll stores its verdict into the  *)
(*                 flag (erasing a stop that landed after the flag was     *)
(*                 read); FALSE (as written): it only ever sets the flag   *)
(*   JoinThread    TRUE: the search thread is joined before the next go    *)
(*                 and when the loop is left (repaired); FALSE: detached,  *)
(*                 quit / end of input while searching leaves the thread   *)
(*                 running on destroyed objects (ExitSafe)                 *)
(*   RunningGuard  TRUE: stop is forwarded only while a flag says a search *)
(*                 is running; the flag is cleared by the EXITING thread   *)
(*                 of a search, i.e. possibly after the next go was        *)
(*                 accepted (a stale thread erases the new search's flag)  *)
(***************************************************************************)
EXTENDS Integers, Sequences, FiniteSets, TLC

CONSTANTS MaxDepth,       \* size bound of the per-depth array (previous_moves has MaxDepth + 1 cells)
          NodesPerIter,   \* node visits of one iteration (abstract)
          DepthLimits,    \* set of depth limits the reader may send (0 = none / infinite)
          RootMoves,      \* legal moves of the root position
          SearchMoves,    \* set of possible searchmoves restrictions (subsets of RootMoves; {} = none)
          MaxGos,         \* go commands per behaviour (bounds the model)
          ResetInGo, BestFallback, ClampDepth, TTMoveGuard, PrunedValue, LimitPollOverwrites,
          JoinThread,     \* TRUE (repaired): the search thread is joined before the next go and before the loop is left;
                          \* FALSE (pinned commit): it is detached
          WithQuit,       \* whether quit is part of the explored sessions (bounds the model)
          RunningGuard    \* TRUE: a variant with a "search is running" flag set by go, cleared by the exiting search thread and
                          \* consulted by stop (FALSE as written: stop is always forwarded to the current Search object)

NoMove == "none"
Junk == "junk"            \* a move code that is not legal in the root (a1a1, a move of another position, ...)

VARIABLES
  rpc,        \* reader: "idle" | "busy" (a go has been sent and not yet answered)
  spc,        \* searcher program counter
  stop,       \* the shared flag
  best,       \* Search::_best_move
  depth,      \* _current_depth
  limit,      \* _search_depth (0 = unbounded: go infinite bounded only by MaxDepth)
  allowed,    \* root move list of this search (searchmoves or all root moves)
  nodes,      \* node visits in the current iteration
  ttmove,     \* move stored in the table for the root (possibly poisoned)
  out,        \* output stream of the search: sequence of <<"info", d, kind>>, <<"bestmove", m>>
  stopSent,   \* a stop command has been delivered for the current go
  afterStop,  \* node visits performed after the stop was delivered
  pendReady,  \* 0: no isready sent, 1: sent and not yet answered, 2: answered with readyok
  prevIdx,    \* largest index written into previous_moves
  timeUp,     \* the clock limit has expired (environment)
  gos,        \* number of go commands sent
  epi,        \* a search thread has written its bestmove line and still has its epilogue to run (return from go(), thread exit);
              \* the GUI may already send the next go
  running,    \* the "a search is running" flag of the RunningGuard variant (unused as written)
  exited      \* the command loop has ended (quit / end of input): the Uci object and everything the search thread uses is gone
vars == <<rpc, spc, stop, best, depth, limit, allowed, nodes, ttmove, out, stopSent, afterStop, pendReady, prevIdx, timeUp, gos, epi, running, exited>>

Init == /\ rpc = "idle" /\ spc = "none" /\ stop = FALSE /\ best = NoMove /\ depth = 0 /\ limit = 0 /\ allowed = RootMoves
        /\ nodes = 0 /\ ttmove \in RootMoves \cup {NoMove, Junk} /\ out = <<>> /\ stopSent = FALSE /\ afterStop = 0
        /\ pendReady = 0 /\ prevIdx = 0 /\ timeUp = FALSE /\ gos = 0 /\ epi = FALSE /\ running = FALSE /\ exited = FALSE

\* ------------------------------------------------------------------ reader thread (uci.cpp)
\* go: parse limits, construct the Search object (constructor sets the flag to FALSE), spawn and detach the thread
Go(dl, sm) ==
  /\ rpc = "idle" /\ spc \in {"none", "done"} /\ gos < MaxGos /\ gos' = gos + 1
  /\ (JoinThread => ~epi)              \* go_command ends and joins the previous search thread first (repaired)
  /\ rpc' = "busy" /\ spc' = "spawned" /\ stop' = FALSE /\ best' = NoMove /\ depth' = 0 /\ nodes' = 0
  /\ limit' = (IF dl = 0 THEN MaxDepth ELSE IF ClampDepth /\ dl > MaxDepth THEN MaxDepth ELSE dl)
  /\ allowed' = (IF sm = {} THEN RootMoves ELSE sm)
  /\ stopSent' = FALSE /\ afterStop' = 0 /\ timeUp' = FALSE /\ prevIdx' = 0
  /\ running' = (IF RunningGuard THEN TRUE ELSE running)
  /\ UNCHANGED <<ttmove, out, pendReady, epi, exited>>
\* stop: as written `if (search) search->stop()`; the RunningGuard variant forwards it only while its flag says a search is running
Stop == /\ rpc = "busy" /\ ~stopSent /\ stopSent' = TRUE
        /\ stop' = (IF RunningGuard /\ ~running THEN stop ELSE TRUE)
        /\ UNCHANGED <<rpc, spc, best, depth, limit, allowed, nodes, ttmove, out, afterStop, pendReady, prevIdx, timeUp, gos, epi, running, exited>>
IsReady == /\ pendReady = 0 /\ pendReady' = 1
           /\ UNCHANGED <<rpc, spc, stop, best, depth, limit, allowed, nodes, ttmove, out, stopSent, afterStop, prevIdx, timeUp, gos, epi, running, exited>>
\* the reader answers isready itself, whatever the searcher is doing (output is serialised by the sync_cout lock)
ReadyOk == /\ pendReady = 1 /\ pendReady' = 2         \* 2 = answered (one isready per behaviour bounds the model)
           /\ UNCHANGED <<rpc, spc, stop, best, depth, limit, allowed, nodes, ttmove, out, stopSent, afterStop, prevIdx, timeUp, gos, epi, running, exited>>
\* quit (or the end of the input) may arrive at any time, also while a search is running: the search is told to stop; the repaired
\* reader then waits for the search thread to end before the loop is left, the pinned one leaves at once (the thread was detached)
Quit == /\ rpc \in {"idle", "busy"} /\ rpc' = "quitting" /\ stop' = (IF spc = "none" THEN stop ELSE TRUE)
        /\ UNCHANGED <<spc, best, depth, limit, allowed, nodes, ttmove, out, stopSent, afterStop, pendReady, prevIdx, timeUp, gos, epi, running, exited>>
Exit == /\ rpc = "quitting" /\ ~exited /\ (JoinThread => (spc \in {"none", "done"} /\ ~epi)) /\ exited' = TRUE
        /\ UNCHANGED <<rpc, spc, stop, best, depth, limit, allowed, nodes, ttmove, out, stopSent, afterStop, pendReady, prevIdx, timeUp, gos, epi, running>>
\* the reader sees the bestmove line and may send the next go
SeeBest == /\ rpc = "busy" /\ spc = "done" /\ rpc' = "idle"
           /\ UNCHANGED <<spc, stop, best, depth, limit, allowed, nodes, ttmove, out, stopSent, afterStop, pendReady, prevIdx, timeUp, gos, epi, running, exited>>

\* ------------------------------------------------------------------ environment
TimeUp == /\ rpc = "busy" /\ ~timeUp /\ timeUp' = TRUE
          /\ UNCHANGED <<rpc, spc, stop, best, depth, limit, allowed, nodes, ttmove, out, stopSent, afterStop, pendReady, prevIdx, gos, epi, running, exited>>
Poison == /\ spc \in {"none", "done"} /\ \E m \in RootMoves \cup {NoMove, Junk} : ttmove' = m
          /\ UNCHANGED <<rpc, spc, stop, best, depth, limit, allowed, nodes, out, stopSent, afterStop, pendReady, prevIdx, timeUp, gos, epi, running, exited>>

\* ------------------------------------------------------------------ search thread (search.cpp)
Step(from, to) == spc = from /\ spc' = to
ThreadStart == Step("spawned", "go_entry") /\ UNCHANGED <<rpc, stop, best, depth, limit, allowed, nodes, ttmove, out, stopSent, afterStop, pendReady, prevIdx, timeUp, gos, epi, running, exited>>
InitSearch == Step("go_entry", "after_init") /\ UNCHANGED <<rpc, stop, best, depth, limit, allowed, nodes, ttmove, out, stopSent, afterStop, pendReady, prevIdx, timeUp, gos, epi, running, exited>>
ResetStop == /\ Step("after_init", "loop_head")
             /\ stop' = (IF ResetInGo THEN FALSE ELSE stop)
             /\ best' = (IF BestFallback THEN CHOOSE m \in allowed : TRUE ELSE NoMove)     \* iter_search: _best_move := ...
             /\ UNCHANGED <<rpc, depth, limit, allowed, nodes, ttmove, out, stopSent, afterStop, pendReady, prevIdx, timeUp, gos, epi, running, exited>>
LoopHead == /\ spc = "loop_head"
            /\ IF stop THEN spc' = "print_best" /\ UNCHANGED <<depth, nodes, gos, epi, running, exited>>
               ELSE spc' = "searching" /\ depth' = depth + 1 /\ nodes' = 0
            /\ UNCHANGED <<rpc, stop, best, limit, allowed, ttmove, out, stopSent, afterStop, pendReady, prevIdx, timeUp, gos, epi, running, exited>>
\* one node visit is two steps of the code, `if (stop_search || check_limits())`: first the flag is read ...
PollFlag == /\ spc = "searching" /\ nodes < NodesPerIter /\ ~stop
            /\ spc' = "poll_limits"
            /\ UNCHANGED <<rpc, stop, best, depth, limit, allowed, nodes, ttmove, out, stopSent, afterStop, pendReady, prevIdx, timeUp, gos, epi, running, exited>>
\* ... then the limits are polled; a stop may land between the two.  As written the poll only ever SETS the flag;
\* LimitPollOverwrites = TRUE models a poll that stores its verdict (and so can erase a stop that has just arrived)
PollLimits == /\ spc = "poll_limits"
              /\ spc' = "searching"
              /\ nodes' = nodes + 1
              /\ stop' = (IF LimitPollOverwrites THEN timeUp ELSE (stop \/ timeUp))
              /\ afterStop' = afterStop + (IF stopSent /\ ~stop' THEN 1 ELSE 0)
              /\ UNCHANGED <<rpc, best, depth, limit, allowed, ttmove, out, stopSent, pendReady, prevIdx, timeUp, gos, epi, running, exited>>
\* the iteration ends (normally, or unwinding because the flag is set); result class chosen nondeterministically
IterEnd(kind) ==
  /\ spc = "searching" /\ (nodes = NodesPerIter \/ stop)
  /\ LET pvmove == IF TTMoveGuard
                   THEN (IF ttmove \in allowed THEN ttmove ELSE CHOOSE m \in allowed : TRUE)
                   ELSE (IF ttmove # NoMove THEN ttmove ELSE CHOOSE m \in allowed : TRUE)
     IN IF ~stop
        THEN /\ out' = Append(out, <<"info", depth, kind>>) /\ best' = pvmove
        ELSE UNCHANGED <<out, best, gos, epi, running, exited>>
  /\ prevIdx' = (IF depth > prevIdx THEN depth ELSE prevIdx)            \* previous_moves[_current_depth] = _best_move
  /\ spc' = (IF (kind = "mate" /\ ~stop) \/ depth >= limit \/ timeUp THEN "print_best" ELSE "loop_head")
  /\ UNCHANGED <<rpc, stop, depth, limit, allowed, nodes, ttmove, stopSent, afterStop, pendReady, timeUp, gos, epi, running, exited>>
PrintBest == /\ Step("print_best", "done") /\ out' = Append(out, <<"bestmove", best>>) /\ epi' = TRUE
             /\ UNCHANGED <<rpc, stop, best, depth, limit, allowed, nodes, ttmove, stopSent, afterStop, pendReady, prevIdx, timeUp, gos, running, exited>>
\* the epilogue of a search thread whose bestmove line is out: it returns from go() and exits.  It is a step of its own because the
\* GUI reacts to the bestmove line, not to the thread's end: the next go (and its stop) may be handled before this step.  As written
\* the epilogue touches no shared state; the RunningGuard variant clears its flag here
ThreadExit == /\ epi /\ epi' = FALSE /\ running' = (IF RunningGuard THEN FALSE ELSE running)
              /\ UNCHANGED <<rpc, spc, stop, best, depth, limit, allowed, nodes, ttmove, out, stopSent, afterStop, pendReady, prevIdx, timeUp, gos, exited>>

ResultKinds == {"cp", "mate"} \cup (IF PrunedValue THEN {} ELSE {"mate0"})
SNext == ThreadStart \/ InitSearch \/ ResetStop \/ LoopHead \/ PollFlag \/ PollLimits \/ (\E k \in ResultKinds : IterEnd(k)) \/ PrintBest \/ ThreadExit
RNext == (\E dl \in DepthLimits, sm \in SearchMoves : Go(dl, sm)) \/ Stop \/ IsReady \/ ReadyOk \/ SeeBest \/ (WithQuit /\ (Quit \/ Exit))
Next == SNext \/ RNext \/ TimeUp \/ Poison
Spec == Init /\ [][Next]_vars
FairSpec == Spec /\ WF_vars(SNext) /\ WF_vars(ReadyOk) /\ WF_vars(Exit)

\* ------------------------------------------------------------------ properties
Bests == {i \in 1..Len(out) : out[i][1] = "bestmove"}
Infos == {i \in 1..Len(out) : out[i][1] = "info"}
\* C05: the bestmove answering a go is a move of the root list (hence legal), never "none" and never a poisoned code
BestIsRootMove == \A i \in Bests : out[i][2] \in RootMoves
\* C09: ... and one of the searchmoves
BestInSearchMoves == (spc = "done" /\ out # <<>> /\ out[Len(out)][1] = "bestmove") => out[Len(out)][2] \in allowed
\* C05: at most one bestmove per go: the number of bestmove lines never exceeds the number of go commands answered
\* (checked with a single go per behaviour in the MC configuration: OneGo)
OneBestPerGo == Cardinality(Bests) <= gos /\ (rpc = "idle" => Cardinality(Bests) = gos)
\* C09: info depths of one go are 1, 2, 3, ... and never exceed the limit (infos since the last bestmove line)
LastBest == IF Bests = {} THEN 0 ELSE CHOOSE i \in Bests : \A j \in Bests : j <= i
CurInfos == {i \in Infos : i > LastBest}
InfoDepthsConsecutive == \A i \in CurInfos : out[i][2] = Cardinality({j \in CurInfos : j <= i})
DepthWithinLimit == \A i \in CurInfos : out[i][2] <= limit
\* C10: the per-depth array is never indexed beyond its MaxDepth + 1 cells
PrevMovesIndexInBounds == prevIdx <= MaxDepth /\ depth <= MaxDepth + 1
\* C08 (design part): no iteration reports the impossible "mate 0"
NoMateZero == \A i \in Infos : out[i][3] # "mate0"
\* C06: once the stop has been delivered and seen, no new iteration is started
NoIterationStartsAfterStop == [][ (stopSent /\ stop /\ spc = "loop_head") => spc' # "searching" ]_vars
\* C06: promptness in steps: no node visit completes with the flag still clear after a delivered stop
StopPrompt == afterStop = 0
\* C06 / C09 liveness (under FairSpec): a stop, or a finite limit, is eventually answered by a bestmove
StopAnswered == stopSent ~> (spc = "done")
GoAnswered == (rpc = "busy") ~> (spc = "done")
ReadyAnswered == (pendReady = 1) ~> (pendReady = 2)
\* C10: when the loop has been left nothing of the search is still running (the thread works on objects that are gone by then)
ExitSafe == exited => (spc \in {"none", "done"} /\ ~epi)
\* quit is honoured (under FairSpec)
QuitAnswered == (rpc = "quitting") ~> exited
\* a lost stop: the flag is FALSE although a stop was delivered and the search is still going
StopNeverLost == (stopSent /\ spc \in {"loop_head", "searching"} /\ ~timeUp) => stop
=============================================================================
