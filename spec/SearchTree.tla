------------------------------- MODULE SearchTree -------------------------------
(***************************************************************************)
(* The search as a walk over the game machine (ChessGame): what a node of  *)
(* Search::search / Search::quiescence_search may be entered with, which   *)
(* nodes may follow it, and what it must return where the rules decide.    *)
(* This is the node protocol, not the heuristics: which of the admissible  *)
(* children are visited (ordering, reductions, pruning) is left open.      *)
(*                                                                         *)
(*   frame   one activation of search() (q = 0) or quiescence_search()     *)
(*           (q = 1): the game state it stands on, ply, depth and window   *)
(*           at entry, and how it was reached                              *)
(*   Enter   a new activation on top of the stack; its relation to the     *)
(*           activation below it is one of                                 *)
(*             move    ply + 1, position = Apply(parent, m), m legal       *)
(*             null    ply + 1, position = ApplyNull(parent)               *)
(*             verify  ply + 1, same position (null-move verification)     *)
(*             iid     same ply, same position, q = 0 (internal iterative  *)
(*                     deepening)                                          *)
(*             qentry  same ply, same position, q = 1 below q = 0 (the     *)
(*                     horizon)                                            *)
(*   Exit    the top activation returns a value                            *)
(* code: engine/search.cpp Search::search (node protocol up to the move    *)
(* loop), Search::quiescence_search; hook points node/qnode + window,      *)
(* exit/qexit.                                                             *)
(***************************************************************************)
EXTENDS ChessGame

VALUE_NONE == 640002
VALUE_INFINITE == VALUE_NONE - 1
VALUE_MATE == VALUE_INFINITE - 1
MAX_DEPTH == 40
LostIn(n) == -(VALUE_MATE - n)
WinIn(n) == VALUE_MATE - n
IsMateScore(v) == v <= LostIn(MAX_DEPTH) \/ v >= WinIn(MAX_DEPTH)

\* ---------------------------------------------------------------- frames
\* g: ChessGame state; legal: Legal(g.cur) (computed once); chk: InCheck(g.cur)
MkFrame(g, q, ply, d, a, b, how) ==
  [g |-> g, q |-> q, ply |-> ply, d |-> d, a |-> a, b |-> b, how |-> how,
   legal |-> Legal(g.cur), chk |-> InCheck(g.cur), kids |-> 0,
   ab |-> FALSE, abp |-> g.cur]      \* ab: a child reached by a move (position abp) has returned with the stop flag up

\* the rules end the line here: the node returns at once, without visiting anything
\*   search():  (not at the root) repeated once, fifty moves, threefold, dead material; or no legal move
\*   quiescence_search(): fifty moves, threefold, dead material (not single repetition); or no legal move
DrawnHere(f) == IF f.q = 0 THEN f.ply > 0 /\ (Repeated(f.g) \/ IsDraw(f.g)) ELSE IsDraw(f.g)
Terminal(f) == DrawnHere(f) \/ f.legal = {}
\* the value the rules dictate: checkmate ends the game before any draw can be claimed (a mate delivered by the move that completes
\* the fifty moves stands - search.cpp looks at a side in check before it scores the fifty-move draw), otherwise a draw by rule,
\* otherwise stalemate.  quiescence_search() stands pat before it generates moves, so a stalemated quiescence node is not obliged to
\* return the draw value (RuleDecides is false there).
RuleValue(f) == IF f.legal = {} /\ f.chk THEN LostIn(0) ELSE 0
RuleDecides(f) == IF f.q = 0 THEN Terminal(f) ELSE f.d > 0 /\ (DrawnHere(f) \/ (f.legal = {} /\ f.chk))

\* ---------------------------------------------------------------- root entries
\* Deviation of the code, modelled as it is: the aspiration loop of Search::go re-searches after a fail-low with
\*   [min_bound - delta, result + 1]; search() is fail-soft, so `result` may lie below min_bound - delta and the window it is
\* re-entered with is then EMPTY (alpha >= beta; the ASSERT(alpha < beta) at the top of search() is compiled out).  Such a
\* root visit returns a value <= alpha or >= beta and the loop widens again.  Every other activation has alpha < beta.
InvertedRoot(a, b) == a >= b
RootEntryOK(ply, q, a, b) == ply = 0 /\ q = 0 /\ -VALUE_INFINITE <= a /\ b <= VALUE_INFINITE

\* ---------------------------------------------------------------- the successor relation
\* How may an activation with position `cpos` (q, ply, depth, window) follow the activation `p` ?
MovesTo(p, cpos) == {m \in p.legal : Apply(p.g.cur, m) = cpos}

Relation(p, cpos, q, ply) ==
  IF ply = p.ply + 1 THEN
       IF MovesTo(p, cpos) # {} THEN "move"
       ELSE IF cpos = ApplyNull(p.g.cur) THEN "null"
       ELSE IF cpos = p.g.cur THEN "verify"
       ELSE "bad"
  ELSE IF ply = p.ply /\ cpos = p.g.cur THEN (IF q = 1 /\ p.q = 0 THEN "qentry" ELSE IF q = 0 /\ p.q = 0 THEN "iid" ELSE "bad")
  ELSE "bad"

\* admissibility of each kind of step (the conditions under which the code takes it)
\* returns the set of names of broken rules (empty = admissible)
StepFaults(p, rel, cpos, q, ply, d, a, b) ==
  LET effd == p.d + (IF p.chk THEN 1 ELSE 0)      \* check extension
      m == IF rel = "move" THEN CHOOSE x \in MovesTo(p, cpos) : TRUE ELSE -1
  IN
  (IF ~(a < b) /\ ~(rel = "iid" /\ InvertedRoot(p.a, p.b)) THEN {"empty_window"} ELSE {})
  \cup (IF Terminal(p) THEN {"child_of_terminal_node"} ELSE {})
  \cup (IF rel = "bad" THEN {"not_a_successor"} ELSE {})
  \* an abandoned search unwinds: once a move's child has come back with the stop flag up, search() tries no OTHER move (the re-searches
  \* of the same move may still be entered, they return at once); nothing derived from the 0 such a child returns is compared with the
  \* bounds or reaches the table - repair 4489584
  \cup (IF rel = "move" /\ p.q = 0 /\ p.ab /\ cpos # p.abp THEN {"move_tried_after_aborted_child"} ELSE {})
  \* (windows nest below a proper window; below an inverted root window - see InvertedRoot - nothing is required)
  \cup (IF p.a < p.b /\ rel \in {"move", "null"} /\ ~(-p.b <= a /\ b <= -p.a) THEN {"window_outside_parent"} ELSE {})
  \cup (IF p.a < p.b /\ rel \in {"verify", "iid", "qentry"} /\ ~(p.a <= a /\ b <= p.b) THEN {"window_outside_parent"} ELSE {})
  \* quiescence: below a quiescence node only quiescence nodes, one unit of depth less; out of check only captures and promotions
  \cup (IF rel = "move" /\ p.q = 1 /\ (q # 1 \/ d # p.d - 1) THEN {"quiescence_shape"} ELSE {})
  \cup (IF rel = "move" /\ p.q = 1 /\ ~p.chk /\ IsQuiet(p.g.cur, m) THEN {"quiet_move_in_quiescence"} ELSE {})
  \cup (IF rel \in {"null", "verify", "iid"} /\ p.q = 1 THEN {"quiescence_shape"} ELSE {})
  \cup (IF rel = "qentry" /\ d # MAX_DEPTH - 1 THEN {"quiescence_shape"} ELSE {})
  \* main search: children are main-search nodes with a smaller depth (after the check extension); the horizon is entered at depth 0
  \cup (IF rel = "move" /\ p.q = 0 /\ (q # 0 \/ d < 0 \/ d > effd - 1) THEN {"depth_not_decreasing"} ELSE {})
  \cup (IF rel = "qentry" /\ ~(effd = 0 \/ p.ply >= MAX_DEPTH) THEN {"horizon_before_depth_zero"} ELSE {})
  \cup (IF rel = "iid" /\ ~(d = effd - 2 /\ effd > 5 /\ a = p.a /\ b = p.b) THEN {"iid_shape"} ELSE {})
  \* null move: never in check, never twice in a row, never at a pv node, zero-width window at beta, needs depth
  \cup (IF rel = "null" /\ (p.chk \/ p.how = "null" \/ p.b # p.a + 1 \/ effd <= 4 \/ q # 0 \/ d < 0 \/ d >= effd) THEN {"null_move_shape"} ELSE {})
  \cup (IF rel = "verify" /\ (p.q # 0 \/ q # 0 \/ p.chk \/ effd < 14 \/ b # a + 1) THEN {"verification_shape"} ELSE {})

\* how the new activation was reached, as far as the null-move guard is concerned (same-ply activations share the stack record)
ChildHow(p, rel) == IF rel \in {"iid", "qentry"} THEN p.how ELSE rel

ChildGame(p, rel, cpos) ==
  IF rel = "move" THEN Do(p.g, CHOOSE x \in MovesTo(p, cpos) : TRUE)
  ELSE IF rel = "null" THEN DoNull(p.g)
  ELSE p.g

\* ---------------------------------------------------------------- what a node may return
\* (stopped = the stop flag was up when the node returned: such values are discarded by every caller)
ExitFaults(f, v, stopped) ==
  IF stopped THEN {}
  ELSE (IF ~(-VALUE_MATE <= v /\ v <= VALUE_MATE) THEN {"value_out_of_range"} ELSE {})
       \cup (IF RuleDecides(f) /\ v # RuleValue(f) THEN {"rule_value"} ELSE {})
       \cup (IF v = LostIn(0) /\ ~(f.legal = {} /\ f.chk) THEN {"mated_score_without_mate"} ELSE {})
       \cup (IF v >= WinIn(0) THEN {"mate_in_zero"} ELSE {})
=============================================================================
