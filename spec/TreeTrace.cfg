INIT Init
NEXT Next
INVARIANT Done
POSTCONDITION Consumed
CHECK_DEADLOCK FALSE
