------------------------------- MODULE Endgames -------------------------------
(***************************************************************************)
(* Material classes of the engine's specialised endgame evaluators,        *)
(* transcribed as predicates on positions (strong side s, weak side 1-s),  *)
(* in the order in which the engine consults them.  Used to PROVE that the *)
(* position streams of C13 / C14 reach every class: the monitors count     *)
(* evaluations per class.  The evaluators themselves are not specified.    *)
(***************************************************************************)
EXTENDS ChessText
N(p, c, k) == Count(p.board, Piece(c, k))
NonPawns(p, c) == N(p, c, KNIGHT) + N(p, c, BISHOP) + N(p, c, ROOK) + N(p, c, QUEEN)
Men(p, c) == NonPawns(p, c) + N(p, c, PAWN)            \* pieces other than the king
Bare(p, c) == Men(p, c) = 0
Only(p, c, np, nn, nb, nr, nq) == /\ N(p, c, PAWN) = np /\ N(p, c, KNIGHT) = nn /\ N(p, c, BISHOP) = nb
                                  /\ N(p, c, ROOK) = nr /\ N(p, c, QUEEN) = nq
Minors(p, c) == N(p, c, KNIGHT) + N(p, c, BISHOP)

ClassFor(p, s) == LET w == 1 - s IN
  IF Only(p, s, 1,0,0,0,0) /\ Bare(p, w) THEN "KPK"
  ELSE IF NonPawns(p, s) = 0 /\ N(p, s, PAWN) >= 2 /\ Bare(p, w) THEN "KPsK"
  ELSE IF Only(p, s, 0,0,0,1,0) /\ Only(p, w, 0,0,1,0,0) THEN "KRKB"
  ELSE IF Only(p, s, 0,0,0,1,0) /\ Only(p, w, 0,1,0,0,0) THEN "KRKN"
  ELSE IF Only(p, s, 0,2,0,0,0) /\ Bare(p, w) THEN "KNNK"
  ELSE IF Only(p, s, 0,2,0,0,0) /\ Only(p, w, 1,0,0,0,0) THEN "KNNKP"
  ELSE IF Only(p, s, 0,0,0,0,1) /\ Only(p, w, 0,0,0,1,0) THEN "KQKR"
  ELSE IF Only(p, s, 0,1,1,0,0) /\ Bare(p, w) THEN "KNBK"
  ELSE IF Only(p, s, 0,1,0,1,0) /\ Only(p, w, 0,0,0,1,0) THEN "KRNKR"
  ELSE IF Only(p, s, 0,0,1,1,0) /\ Only(p, w, 0,0,0,1,0) THEN "KRBKR"
  ELSE IF N(p, s, BISHOP) = 1 /\ NonPawns(p, s) = 1 /\ N(p, s, PAWN) > 0 /\ Bare(p, w) THEN "KBPsK"
  ELSE IF N(p, s, BISHOP) = 1 /\ N(p, w, BISHOP) = 1 /\ N(p, s, PAWN) >= 1 /\ N(p, w, PAWN) = 0 /\ NonPawns(p, s) = 1 /\ NonPawns(p, w) = 1 THEN "KBPsKB"
  ELSE IF Only(p, s, 0,0,0,1,0) /\ Only(p, w, 1,0,0,0,0) THEN "KRKP"
  ELSE IF Only(p, s, 0,0,0,0,1) /\ Only(p, w, 1,0,0,0,0) THEN "KQKP"
  ELSE IF N(p, s, QUEEN) = 1 /\ N(p, w, ROOK) = 1 /\ N(p, s, PAWN) = 0 /\ N(p, w, PAWN) >= 1 /\ NonPawns(p, s) = 1 /\ NonPawns(p, w) = 1 THEN "KQKRPs"
  ELSE IF Minors(p, s) = 2 /\ Minors(p, w) = 1 /\ N(p, s, PAWN) = 0 /\ N(p, w, PAWN) = 0 /\ NonPawns(p, s) = 2 /\ NonPawns(p, w) = 1 THEN "KmmKm"
  ELSE IF Bare(p, w) THEN "KXK"
  ELSE "general"
\* the engine tries every class for White as the strong side, then for Black, class by class; for counting purposes
\* the first side that yields a class names it
EndgameClass(p) == IF ClassFor(p, 0) # "general" THEN ClassFor(p, 0) ELSE ClassFor(p, 1)
ClassNames == {"KPK", "KPsK", "KRKB", "KRKN", "KNNK", "KNNKP", "KQKR", "KNBK", "KRNKR", "KRBKR", "KBPsK", "KBPsKB", "KRKP", "KQKP", "KQKRPs", "KmmKm", "KXK", "general"}
=============================================================================
