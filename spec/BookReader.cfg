CONSTANTS MaxRecords = 3 ReadChecked = TRUE
INIT RInit
NEXT RNext
INVARIANT LoadedIsContent
CHECK_DEADLOCK FALSE
