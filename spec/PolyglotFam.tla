------------------------------- MODULE PolyglotFam -------------------------------
(***************************************************************************)
(* Covering family for C18 (spec -> code): positions that together touch   *)
(* every reachable piece-square constant, all 16 castling-right sets, the  *)
(* turn constant and every en-passant situation (capturer on the left,     *)
(* the right, both, none, pinned capturer; a- and h-file), both colours.   *)
(* Each line carries the key Polyglot!Key assigns.                          *)
(***************************************************************************)
EXTENDS Polyglot, Json

VARIABLES seedsq, pos
None == [none |-> TRUE]
Put(b, assigns) == [s \in Sq |-> IF \E a \in assigns : a[1] = s THEN (CHOOSE a \in assigns : a[1] = s)[2] ELSE b[s]]
MkPos(assigns, stm, castle, ep) == [board |-> Put(EmptyBoard, assigns), stm |-> stm, castle |-> castle, ep |-> ep, hmc |-> 0, fmn |-> 1]
KingPairs == {<<4, 60>>, <<0, 63>>, <<7, 56>>, <<26, 45>>, <<37, 18>>, <<2, 58>>}

\* (a) every non-king piece on square x, kings on some pair
PieceSet(x) == {MkPos({<<kp[1], 6>>, <<kp[2], 12>>, <<x, p>>}, stm, 0, -1) : kp \in KingPairs, p \in {1,2,3,4,5,7,8,9,10,11}, stm \in {0, 1}}
\* (b) kings everywhere
KingSet(x) == {MkPos({<<x, 6>>, <<o, 12>>}, stm, 0, -1) : o \in {0, 63, 36}, stm \in {0, 1}}
           \cup {MkPos({<<o, 6>>, <<x, 12>>}, stm, 0, -1) : o \in {0, 63, 36}, stm \in {0, 1}}
\* (c) every set of rights
CastleSet == {MkPos({<<4, 6>>, <<0, 4>>, <<7, 4>>, <<60, 12>>, <<56, 10>>, <<63, 10>>}, stm, r, -1) : r \in 0..15, stm \in {0, 1}}
\* (d) en passant: black pawn just pushed to rank 5 on file x % 8; white pawns left / right; optional pinner on the capturer's diagonal or file
EpSet(x) ==
  LET f == x % 8 IN
  {MkPos({<<4, 6>>, <<60, 12>>, <<MkSq(f, 4), 7>>}
           \cup (IF l /\ f > 0 THEN {<<MkSq(f - 1, 4), 1>>} ELSE {})
           \cup (IF r /\ f < 7 THEN {<<MkSq(f + 1, 4), 1>>} ELSE {})
           \cup (IF pin = 0 THEN {} ELSE {<<pinsq, pin>>}),
         0, 0, MkSq(f, 5)) :
      l \in BOOLEAN, r \in BOOLEAN, pin \in {0, 9, 10, 11}, pinsq \in {x}}

Candidates(x) == PieceSet(x) \cup KingSet(x) \cup (IF x = 0 THEN CastleSet ELSE {}) \cup EpSet(x)
Member(p) == Count(p.board, 6) = 1 /\ Count(p.board, 12) = 1 /\ RetroLegal(p)

Init == seedsq \in Sq /\ pos = None
Next == /\ pos = None
        /\ \E p \in Candidates(seedsq) : Member(p) /\ pos' = p
        /\ UNCHANGED seedsq
Line(p) == ToJson([fen |-> Fen(p), key |-> Hex64(Key(p)), ep |-> (p.ep # -1), epcounts |-> EpCounts(p)])
Emit == (pos # None) => PrintT("PG " \o Line(pos)) /\ PrintT("PG " \o Line(Mirror(pos)))
=============================================================================
