------------------------------- MODULE PolyglotSanity -------------------------------
(* Cross-checks of Polyglot.tla / PolyglotRandom.tla against the nine test vectors of the   *)
(* published format description and structural facts (781 distinct constants).               *)
EXTENDS Polyglot
RECURSIVE Play(_,_,_)
Play(p, ms, i) == IF i > Len(ms) THEN p ELSE Play(Apply(p, ParseUci(ms[i])), ms, i + 1)
After(ms) == Play(StartPos, ms, 1)
ASSUME Len(Random64) = 781 /\ Cardinality({Random64[i] : i \in 1..781}) = 781
ASSUME \A i \in 1..781 : \A j \in 1..4 : Random64[i][j] \in 0..65535
ASSUME Hex64(Random64[1]) = "9d39247e33776d41" /\ Hex64(Random64[781]) = "f8d626aaaf278509"
ASSUME Hex64(Key(StartPos)) = "463b96181691fc9c"
ASSUME Hex64(Key(After(<<"e2e4">>))) = "823c9b50fd114196"
ASSUME Hex64(Key(After(<<"e2e4", "d7d5">>))) = "0756b94461c50fb0"
ASSUME Hex64(Key(After(<<"e2e4", "d7d5", "e4e5">>))) = "662fafb965db29d4"
ASSUME Hex64(Key(After(<<"e2e4", "d7d5", "e4e5", "f7f5">>))) = "22a48b5a8e47ff78"
ASSUME Hex64(Key(After(<<"e2e4", "d7d5", "e4e5", "f7f5", "e1e2">>))) = "652a607ca3f242c1"
ASSUME Hex64(Key(After(<<"e2e4", "d7d5", "e4e5", "f7f5", "e1e2", "e8f7">>))) = "00fdd303c946bdd9"
ASSUME Hex64(Key(After(<<"a2a4", "b7b5", "h2h4", "b5b4", "c2c4">>))) = "3c8123ea7b067637"
ASSUME Hex64(Key(After(<<"a2a4", "b7b5", "h2h4", "b5b4", "c2c4", "b4c3", "a1a3">>))) = "5c3f9b829b279560"
ASSUME PrintT("PolyglotSanity OK")
=============================================================================
