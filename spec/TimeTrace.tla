------------------------------- MODULE TimeTrace -------------------------------
(* Monitor for C20 (code -> spec): checks the contract of TimeAlloc on every observed allocation. *)
EXTENDS TimeAlloc
\* ---- monitor (code -> spec): one line per chain with the allocations the engine returned
T == ndJsonDeserialize(IOEnv.TRACE)
VARIABLES l, cnt
MInit == l = 1 /\ cnt = [chains |-> 0, calls |-> 0, mono |-> 0, viol |-> 0]
Bad(c) == {i \in 1..Len(c.rem) : ~Contract(c.rem[i], c.t[i])}
NonMono(c) == {i \in 1..(Len(c.rem) - 1) : c.rem[i] <= c.rem[i + 1] /\ c.t[i] > c.t[i + 1]}
\* the same clock state evaluated in other orders (tf: after a call for another ply and colour, td: chain walked downwards):
\* the allotment is a function of the clock state, so every order gives the same value (and the contract holds for each)
Orders(c) == {i \in 1..Len(c.tf) : c.tf[i] # c.t[i] \/ c.td[i] # c.t[i] \/ ~Contract(c.rem[i], c.tf[i]) \/ ~Contract(c.rem[i], c.td[i])}
MNext == /\ l <= Len(T)
         /\ \E r \in {[bad |-> Bad(T[l]), nm |-> NonMono(T[l]), ord |-> Orders(T[l])]} :
              /\ (r.ord # {} => PrintT("VIOL " \o ToJson([line |-> l, prop |-> "C20", kind |-> "depends_on_call_history",
                       detail |-> [inc |-> T[l].inc, mtg |-> T[l].mtg, ply |-> T[l].ply, side |-> T[l].side,
                                   cases |-> {<<T[l].rem[i], T[l].t[i], T[l].tf[i], T[l].td[i]>> : i \in r.ord}]])))
              /\ (r.bad # {} => PrintT("VIOL " \o ToJson([line |-> l, prop |-> "C20", kind |-> "budget",
                       detail |-> [inc |-> T[l].inc, mtg |-> T[l].mtg, ply |-> T[l].ply, side |-> T[l].side,
                                   cases |-> {<<T[l].rem[i], T[l].t[i]>> : i \in r.bad}]])))
              /\ (r.nm # {} => PrintT("VIOL " \o ToJson([line |-> l, prop |-> "C20", kind |-> "not_monotone",
                       detail |-> [inc |-> T[l].inc, mtg |-> T[l].mtg, ply |-> T[l].ply, side |-> T[l].side,
                                   cases |-> {<<T[l].rem[i], T[l].t[i], T[l].rem[i + 1], T[l].t[i + 1]>> : i \in r.nm}]])))
              /\ cnt' = [chains |-> cnt.chains + 1, calls |-> cnt.calls + Len(T[l].rem), mono |-> cnt.mono + Len(T[l].rem) - 1,
                         viol |-> cnt.viol + Cardinality(r.bad) + Cardinality(r.nm) + Cardinality(r.ord)]
         /\ l' = l + 1
MDone == (l = Len(T) + 1) => PrintT("CNT " \o ToJson(cnt))
Consumed == TLCGet("stats").diameter = Len(T) + 1
=============================================================================
