------------------------------- MODULE Families -------------------------------
(***************************************************************************)
(* Constructed position families for the spec -> code replay of C01/C16:   *)
(* TLC enumerates every member of a family, keeps those inside the C01     *)
(* quantifier (RetroLegal) and prints the position with the legal move set *)
(* the rules give.  The harness loads each FEN into the real engine and    *)
(* compares the generated list.                                            *)
(*                                                                         *)
(*   F1  en passant x pin / check : capturer, just-pushed pawn, own king   *)
(*       and an enemy slider anywhere (diagonal, file and rank x-rays,     *)
(*       checks by the pushed pawn, discovered checks), one or two         *)
(*       capturers                                                         *)
(*   F2  en passant giving check : own slider anywhere, enemy king         *)
(*       anywhere; discovered checks through the capturer's origin square  *)
(*       and through the captured pawn's square, direct checks             *)
(*   F3  castling : every subset of the mover's rights x one enemy piece   *)
(*       of every kind on every square (attackers of e/f/g/d/c/b squares,  *)
(*       blockers) x own blockers                                          *)
(*   F4  promotions : pawn on the 7th on every file x capturable pieces    *)
(*       left/right x blocker ahead x enemy slider anywhere (pins along    *)
(*       file, rank and both diagonals, checks)                            *)
(*   F5  home-rook captures with the right still held : by promoting pawns *)
(*       (b7xa8, g7xh8), knights, bishops, rooks and queens                *)
(*   F6  pins : own piece of every kind between own king and an enemy      *)
(*       slider on every ray, pinner capturable or not, second attacker    *)
(*   F7  castling look-alikes : a rook or queen on e1 / e8 moving two      *)
(*       files sideways (e8g8, e8c8, e1g1, e1c1), with and without rights  *)
(*   F8  promotions next to like pieces : a piece of the promotion kind    *)
(*       already exists and an enemy piece can capture it afterwards       *)
(*   F9  castling with an en-passant square set : rights subsets x a pawn  *)
(*       that has just been pushed two squares (with or without a pawn     *)
(*       beside it) x one enemy piece anywhere                             *)
(* Both colours are covered by emitting Mirror(p) as well (its legal set   *)
(* is computed by Legal on the mirrored position, not by symmetry).        *)
(***************************************************************************)
EXTENDS ChessText, Json

CONSTANTS Fam,     \* "F1" | "F3" | "F4" | "F6"
          Full,    \* TRUE: complete family (thorough tier); FALSE: reduced (quick tier)
          WithApply \* TRUE: also print, per legal move, the resulting FEN and the move's classification (C02, C15)

None == [none |-> TRUE]
VARIABLES seedsq, pos
vars == <<seedsq, pos>>

Put(b, assigns) == [s \in Sq |-> IF \E a \in assigns : a[1] = s THEN (CHOOSE a \in assigns : a[1] = s)[2] ELSE b[s]]
DistinctSqs(assigns) == Cardinality({a[1] : a \in assigns}) = Cardinality(assigns)
MkPos(assigns, stm, castle, ep) == [board |-> Put(EmptyBoard, assigns), stm |-> stm, castle |-> castle, ep |-> ep, hmc |-> 0, fmn |-> 1]

Sliders == {9, 10, 11}          \* black bishop, rook, queen
BkCorner == IF Full THEN {7, 56, 63, 0, 39} ELSE {7, 56, 63}

\* ---- F1: white to move, white pawn(s) on rank 5, black pawn just pushed to rank 5
F1Set(wk) ==
    {MkPos({<<wk, 6>>, <<bk, 12>>, <<MkSq(cf, 4), 1>>, <<MkSq(cf + side, 4), 7>>, <<ss, sk>>}
             \cup (IF two /\ cf + 2*side \in 0..7 THEN {<<MkSq(cf + 2*side, 4), 1>>} ELSE {}),
           0, 0, MkSq(cf + side, 5)) :
        bk \in BkCorner, cf \in 0..7, side \in {-1, 1}, sk \in Sliders, ss \in Sq, two \in (IF Full THEN {FALSE, TRUE} ELSE {FALSE})}
F1Interesting(p) ==
  LET caps == {s \in Sq : p.board[s] = 1 /\ Rank(s) = 4}
      b2 == [s \in Sq |-> IF s \in caps \/ s = p.ep - 8 THEN 0 ELSE p.board[s]]
  IN Full \/ Attacked(b2, KingSq(p.board, 0), 1) \/ Attacked(p.board, KingSq(p.board, 0), 1)
F1Ok(wk, p) ==
  /\ Count(p.board, 6) = 1 /\ Count(p.board, 12) = 1
  /\ F1Interesting(p)
  /\ Cardinality({s \in Sq : p.board[s] # 0}) >= 5
  /\ p.board[p.ep] = 0 /\ p.board[p.ep + 8] = 0
  /\ RetroLegal(p)

\* ---- F2: en passant that gives check: own slider, enemy king on the seed square; the capture opens a line through the
\* capturer's origin and/or through the captured pawn's square, or checks directly
F2Set(bk) ==
    {MkPos({<<wk, 6>>, <<bk, 12>>, <<MkSq(cf, 4), 1>>, <<MkSq(cf + side, 4), 7>>, <<ss, sk>>}, 0, 0, MkSq(cf + side, 5)) :
        wk \in {0, 7, 63}, cf \in 0..7, side \in {-1, 1}, sk \in {3, 4, 5}, ss \in Sq}
F2Ok(p) ==
  /\ Count(p.board, 6) = 1 /\ Count(p.board, 12) = 1
  /\ Cardinality({s \in Sq : p.board[s] # 0}) = 5
  /\ p.board[p.ep] = 0 /\ p.board[p.ep + 8] = 0
  /\ LET b2 == [s \in Sq |-> IF p.board[s] \in {1, 7} THEN 0 ELSE p.board[s]]
     IN Full \/ Attacked(b2, KingSq(p.board, 1), 0)
  /\ RetroLegal(p)

\* ---- F3: castling.  White to move; rights subset; one black piece anywhere; optional white blocker
F3Set(x) ==
  {MkPos({<<4, 6>>, <<0, 4>>, <<7, 4>>, <<60, 12>>, <<x, bp>>} \cup (IF wb = -1 THEN {} ELSE {<<wb, 2>>}), 0, rights, -1) :
      bp \in {7, 8, 9, 10, 11}, rights \in {1, 2, 3}, wb \in (IF Full THEN {-1, 1, 2, 3, 5, 6} ELSE {-1, 1})}
  \cup
  \* the black king as attacker of the path squares
  {MkPos({<<4, 6>>, <<0, 4>>, <<7, 4>>, <<x, 12>>}, 0, rights, -1) : rights \in {3}}
  \cup
  \* rights of both sides, rook captures revoke rights after the move (exercised by C02 from these roots)
  {MkPos({<<4, 6>>, <<0, 4>>, <<7, 4>>, <<60, 12>>, <<56, 10>>, <<63, 10>>, <<x, bp>>}, 0, 15, -1) : bp \in {8, 9, 11}}

\* ---- F4: promotions.  White pawn on the 7th on file pf; black pieces on the 8th left/right/ahead; a black slider anywhere
F4Set(ss) ==
  UNION {
    {MkPos({<<wk, 6>>, <<bk, 12>>, <<MkSq(pf, 6), 1>>, <<ss, sk>>}
             \cup (IF lra[1] /\ pf > 0 THEN {<<MkSq(pf - 1, 7), 8>>} ELSE {})
             \cup (IF lra[2] /\ pf < 7 THEN {<<MkSq(pf + 1, 7), 10>>} ELSE {})
             \cup (IF lra[3] THEN {<<MkSq(pf, 7), 9>>} ELSE {}),
           0, 0, -1) :
        wk \in (IF Full THEN {4, 12, 20, 48, 55, 62, 33} ELSE {4}),
        \* the enemy king also on the pawn's own file below it and on the diagonals through the pawn's square: a promoted
        \* queen / rook / bishop then checks THROUGH the square the pawn has just left
        bk \in (IF Full THEN {63, 56, 32} ELSE {63}) \cup {MkSq(pf, 3)} \cup (IF pf < 7 THEN {MkSq(pf + 1, 5)} ELSE {}) \cup (IF pf > 0 THEN {MkSq(pf - 1, 5)} ELSE {}),
        sk \in Sliders,
        lra \in (IF Full THEN BOOLEAN \X BOOLEAN \X BOOLEAN
                 ELSE {<<TRUE, TRUE, FALSE>>, <<FALSE, FALSE, TRUE>>, <<TRUE, FALSE, FALSE>>, <<FALSE, TRUE, TRUE>>})} :
    pf \in 0..7}

\* ---- F6: pins.  White king wk, white piece of kind k on a ray square, black slider further along the ray,
\* plus one more black piece (second attacker / capturable piece) on seedsq
F6Set(x) ==
  UNION {
    {MkPos({<<wk, 6>>, <<63, 12>>, <<RayT[d][wk][i], k>>, <<RayT[d][wk][j], sk>>, <<x, xp>>}, 0, 0, -1) :
        i \in {a \in 1..(IF Full THEN 3 ELSE 2) : a < Len(RayT[d][wk])}, j \in {c \in 2..(IF Full THEN 6 ELSE 4) : c <= Len(RayT[d][wk])},
        k \in {1, 2, 3, 4, 5}, sk \in Sliders, xp \in (IF Full THEN {7, 8, 10} ELSE {7})} :
    wk \in (IF Full THEN {0, 4, 27, 36, 18} ELSE {4, 27}), d \in 1..8}

\* ---- F5: captures of rooks on their home squares while the right is still held: by promoting pawns (b7xa8, g7xh8),
\* knights, bishops, queens; also quiet promotions next to the rooks.  White king on the seed square.
F5Set(x) ==
  {MkPos({<<x, 6>>, <<60, 12>>, <<56, 10>>, <<63, 10>>, <<y, k>>}
           \cup (IF pb THEN {<<49, 1>>} ELSE {}) \cup (IF pg THEN {<<54, 1>>} ELSE {}),
         0, rights, -1) :
      rights \in {4, 8, 12}, pb \in BOOLEAN, pg \in BOOLEAN, k \in (IF Full THEN {2, 3, 5, 4} ELSE {2, 3, 5}),
      y \in (IF Full THEN {41, 50, 53, 46, 35, 36, 0, 7, 42, 45, 19, 20} ELSE {41, 53, 35, 36})}

\* ---- F7: moves that LOOK like castling in UCI text but are not: a rook / queen / knight-free piece standing on e1 or e8
\* (either side's king home square) moving two files sideways, with and without castling rights of the mover;
\* the enemy king on the seed square
F7Set(x) ==
  {MkPos({<<4, 6>>, <<0, 4>>, <<7, 4>>, <<x, 12>>, <<60, k>>} \cup (IF extra THEN {<<12, 1>>} ELSE {}), 0, rights, -1) :
      k \in {4, 5}, rights \in {0, 1, 2, 3}, extra \in BOOLEAN}
  \cup
  {MkPos({<<kw, 6>>, <<x, 12>>, <<4, k>>, <<60, k2>>}, 0, 0, -1) : kw \in {16, 23}, k \in {4, 5}, k2 \in {4, 5}}

\* ---- F8: promotions while a piece of the promotion kind already exists and can be captured by the reply (piece-list
\* bookkeeping under nested make/unmake): white pawn on the 7th, white piece of kind k somewhere, a black piece able to take it
F8Set(x) ==
  {MkPos({<<wk, 6>>, <<62, 12>>, <<MkSq(pf, 6), 1>>, <<x, k>>, <<y, bp>>}, 0, 0, -1) :
      wk \in {4, 16}, pf \in {0, 3, 6}, k \in {2, 3, 4, 5}, bp \in {8, 9, 10, 11}, y \in (IF Full THEN Sq ELSE {9, 18, 27, 36, 45, 11, 25, 33, 52, 3})}

\* ---- F9: castling while an en-passant square is set.  White to move with a subset of its rights; Black has just pushed a pawn two
\* squares (en-passant square behind it), with or without a white pawn beside it that could capture; one black piece on the seed square
\* (attacker / blocker of the castling path).  Castling is made and unmade with the en-passant state to be restored (C03), and
\* played with the en-passant state to be cleared (C02).
F9Set(x) ==
  {MkPos({<<4, 6>>, <<0, 4>>, <<7, 4>>, <<60, 12>>, <<MkSq(pf, 4), 7>>, <<x, bp>>}
           \cup (IF wp /\ pf + side \in 0..7 THEN {<<MkSq(pf + side, 4), 1>>} ELSE {}),
         0, rights, MkSq(pf, 5)) :
      pf \in (IF Full THEN 0..7 ELSE {0, 3, 4, 7}), side \in {-1, 1}, wp \in BOOLEAN, bp \in {8, 10}, rights \in {1, 2, 3}}

Candidates(x) == CASE Fam = "F1" -> {p \in F1Set(x) : F1Ok(x, p)}
                   [] Fam = "F8" -> F8Set(x)
                   [] Fam = "F9" -> F9Set(x)
                   [] Fam = "F7" -> F7Set(x)
                   [] Fam = "F5" -> F5Set(x)
                   [] Fam = "F2" -> {p \in F2Set(x) : F2Ok(p)}
                   [] Fam = "F3" -> F3Set(x)
                   [] Fam = "F4" -> F4Set(x)
                   [] Fam = "F6" -> F6Set(x)

\* well-formed members: distinct squares were used (Put keeps one assignment per square), kings present, inside the quantifier
Member(p) == /\ Count(p.board, 6) = 1 /\ Count(p.board, 12) = 1
             /\ RetroLegal(p)

Init == seedsq \in Sq /\ pos = None
Next == /\ pos = None
        /\ \E p \in Candidates(seedsq) : Member(p) /\ pos' = p
        /\ UNCHANGED seedsq

Line(p) == LET L == Legal(p) IN
  IF WithApply
  THEN ToJson([fen |-> Fen(p), legal |-> {Uci(m) : m \in L},
               apply |-> {<<Uci(m), Fen(Apply(p, m)), IsCapture(p, m), IsQuiet(p, m), GivesCheck(p, m)>> : m \in L}])
  ELSE ToJson([fen |-> Fen(p), legal |-> {Uci(m) : m \in L}])
Emit == (pos # None) =>
          /\ PrintT("POS " \o Line(pos))
          /\ LET q == Mirror(pos) IN PrintT("POS " \o Line(q))
=============================================================================
