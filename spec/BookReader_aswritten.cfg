CONSTANTS MaxRecords = 3 ReadChecked = FALSE
INIT RInit
NEXT RNext
INVARIANT LoadedIsContent
CHECK_DEADLOCK FALSE
