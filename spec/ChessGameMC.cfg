CONSTANTS Roots = {"4k3/8/8/8/8/8/4P3/4K3 w - - 0 1", "r3k2r/8/8/8/8/8/8/R3K2R w KQkq - 0 1", "4k3/1P6/8/8/8/8/6p1/4K2R w K - 0 1", "8/8/8/1pP5/8/8/8/k1K5 w - b6 0 2", "7k/8/8/8/8/8/8/KQ6 w - - 0 1"}
          MaxDepth = 2 Cap = 100 FlatHistory = FALSE
INIT Init
NEXT Next
INVARIANTS SaneAlways FenRoundTrip UndoRestores RepetitionSane MirrorCommutes CapacityScaled
CHECK_DEADLOCK FALSE
