CONSTANTS B = 2 D = 3 MATE = 10 MAXD = 4 Variant = "step_toward_mate"
 Vals <- MCVals3
 Windows <- MCWindows
INIT Init
NEXT Next
INVARIANTS Sound FullWindowExact
CHECK_DEADLOCK FALSE
