CONSTANTS Roots = {"r3k2r/8/8/8/8/8/8/R3K2R w KQkq - 0 1", "4k3/8/8/3p4/4P3/8/8/4K3 w - - 0 1", "4k3/1P6/8/8/8/8/6p1/4K2R w K - 0 1", "8/8/8/1pP5/8/8/8/k1K5 w - b6 0 2"}
          MaxDepth = 3 NullClearsEp = TRUE CaptureUpdatesCastle = TRUE
INIT Init
NEXT Next
INVARIANTS IncrementalEqualsScratch KeyDeterminesNothingElse SaneAlways
CHECK_DEADLOCK FALSE
