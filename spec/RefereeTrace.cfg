INIT TInit
NEXT TNext
INVARIANT Done
POSTCONDITION Consumed
CHECK_DEADLOCK FALSE
