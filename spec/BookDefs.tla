------------------------------- MODULE BookDefs -------------------------------
(***************************************************************************)
(* Polyglot book files and lookups (C19).                                  *)
(*                                                                         *)
(* A file is a byte string; its content is the sequence of COMPLETE        *)
(* 16-byte records (key 8, move 2, weight 2, learn 4, big endian); a       *)
(* trailing partial record is not content.  A lookup for a position whose  *)
(* key is in the book returns one of the recorded moves, decoded           *)
(* (castling is stored as king-takes-rook): `best` a move of maximal       *)
(* weight, `random` the move whose weight interval contains the sample     *)
(* (sample uniform in 0..sum-1), hence probability proportional to weight  *)
(* and never a move of weight zero.                                        *)
(*                                                                         *)
(* Two parts: (1) the reader loop, statement by statement, as a small      *)
(* state machine with the stream's state bit (design level: as written vs  *)
(* repaired); (2) an enumerator of concrete book files with everything the *)
(* real reader and both policies must return (spec -> code replay).        *)
(***************************************************************************)
EXTENDS Polyglot, Json

\* ---------------------------------------------------------------- records and bytes
\* Polyglot move word: to file (0-2), to rank (3-5), from file (6-8), from rank (9-11), promotion (12-14: 0 none 1 N 2 B 3 R 4 Q)
BookMoveCode(pos, m) ==
  LET f == MFrom(m)
      t == IF IsCastle(pos, m) THEN (IF MTo(m) > f THEN f + 3 ELSE f - 4) ELSE MTo(m)      \* king takes own rook
      pc == IF MPromo(m) = 0 THEN 0 ELSE MPromo(m) - 1
  IN File(t) + 8 * Rank(t) + 64 * File(f) + 512 * Rank(f) + 4096 * pc
RecordHex(keyhex, code, weight) == keyhex \o Hex16(code) \o Hex16(weight) \o "00000000"

\* what a lookup must print for a stored move word in position pos (inverse of BookMoveCode on legal moves)
DecodeBookMove(pos, code) ==
  LET tf == code % 8  tr == (code \div 8) % 8  ff == (code \div 64) % 8  fr == (code \div 512) % 8  pc == (code \div 4096) % 8
      f == MkSq(ff, fr)  t == MkSq(tf, tr)
      king == KindOf(pos.board[f]) = KING /\ f \in {4, 60}
      t2 == IF king /\ t = f + 3 THEN f + 2 ELSE IF king /\ t = f - 4 THEN f - 2 ELSE t
  IN Uci(Mv(f, t2, IF pc = 0 THEN 0 ELSE pc + 1))

\* ---------------------------------------------------------------- selection policies
MaxWeight(ws) == CHOOSE w \in {ws[i] : i \in 1..Len(ws)} : \A j \in 1..Len(ws) : ws[j] <= w
BestSet(ws) == {i \in 1..Len(ws) : ws[i] = MaxWeight(ws)}
RECURSIVE SumTo(_,_)
SumTo(ws, i) == IF i = 0 THEN 0 ELSE ws[i] + SumTo(ws, i - 1)
\* interval semantics: sample in [cum(i-1), cum(i)) selects entry i
Pick(ws, sample) == CHOOSE i \in 1..Len(ws) : SumTo(ws, i - 1) <= sample /\ sample < SumTo(ws, i)
=============================================================================
