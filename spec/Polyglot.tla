------------------------------- MODULE Polyglot -------------------------------
(***************************************************************************)
(* The Polyglot opening-book key of a position (C18), as the published     *)
(* format defines it: XOR of                                               *)
(*   Random64[64*kind + 8*rank + file] for every piece, kind order         *)
(*       bp wp bn wn bb wb br wr bq wq bk wk                               *)
(*   Random64[768..771] for the rights K Q k q                             *)
(*   Random64[772 + file] of the en-passant square ONLY IF a pawn of the   *)
(*       side to move stands on an adjacent file next to the pushed pawn   *)
(*   Random64[780] if White is to move.                                    *)
(* 64-bit words are four 16-bit limbs (TLC integers are 32 bit).           *)
(***************************************************************************)
EXTENDS ChessText, PolyglotRandom, Bitwise

Zero4 == <<0, 0, 0, 0>>
Xor4(a, b) == <<a[1] ^^ b[1], a[2] ^^ b[2], a[3] ^^ b[3], a[4] ^^ b[4]>>
RECURSIVE XorAll(_)
XorAll(S) == IF S = {} THEN Zero4 ELSE LET x == CHOOSE y \in S : TRUE IN Xor4(Random64[x + 1], XorAll(S \ {x}))

\* published kind index of piece p (1..12 in this spec's numbering: white P N B R Q K, black p n b r q k)
PgKind(p) == IF p <= 6 THEN 2 * (p - 1) + 1 ELSE 2 * (p - 7)
PieceIdx(p, s) == 64 * PgKind(p) + s                 \* s = 8*rank + file already

EpCounts(pos) ==   \* a pawn of the side to move stands beside the just-advanced pawn
  /\ pos.ep # -1
  /\ LET c == pos.stm
         r == IF c = 0 THEN 4 ELSE 3                 \* rank of the capturing pawns (0-based)
     IN \E f \in {File(pos.ep) - 1, File(pos.ep) + 1} : f \in 0..7 /\ pos.board[MkSq(f, r)] = Piece(c, PAWN)

KeyIndices(pos) ==
  {PieceIdx(pos.board[s], s) : s \in {t \in Sq : pos.board[t] # 0}}
  \cup (IF HasBit(pos.castle, 1) THEN {768} ELSE {}) \cup (IF HasBit(pos.castle, 2) THEN {769} ELSE {})
  \cup (IF HasBit(pos.castle, 4) THEN {770} ELSE {}) \cup (IF HasBit(pos.castle, 8) THEN {771} ELSE {})
  \cup (IF EpCounts(pos) THEN {772 + File(pos.ep)} ELSE {})
  \cup (IF pos.stm = 0 THEN {780} ELSE {})
Key(pos) == XorAll(KeyIndices(pos))

HexDigit(d) == SubSeq("0123456789abcdef", d + 1, d + 1)
Hex16(x) == HexDigit(x \div 4096) \o HexDigit((x \div 256) % 16) \o HexDigit((x \div 16) % 16) \o HexDigit(x % 16)
Hex64(k) == Hex16(k[1]) \o Hex16(k[2]) \o Hex16(k[3]) \o Hex16(k[4])
=============================================================================
