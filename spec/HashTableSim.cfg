CONSTANTS Size = 4 Keys = {0, 1, 4, 5, 8} MaxOps = 14
INIT Init
NEXT Next
INVARIANTS NoStaleAfterClear HashFullInRange Emit
CHECK_DEADLOCK FALSE
