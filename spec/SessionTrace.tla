------------------------------- MODULE SessionTrace -------------------------------
(***************************************************************************)
(* The UCI front end as a command/response state machine, validated on     *)
(* traces of the real Uci::loop (code -> spec).  Each trace line is one    *)
(* command with the output lines it produced (the driver is synchronous:   *)
(* it waits for `readyok` / `bestmove` before sending the next command).   *)
(*                                                                         *)
(* Abstract state: the session's current position, advanced by the rules   *)
(* specification.  What each command must do / print:                      *)
(*   ucinewgame            position := start position                      *)
(*   position startpos|fen F [moves m1 ..]   position := Apply(..)         *)
(*   moves m1 ..           (engine extension) position advanced            *)
(*   printboard            prints  Fen: "<Fen(position)>"          -> C02  *)
(*   perft d               prints  <move>: <count> for every legal move    *)
(*                         and the total = number of length-d behaviours   *)
(*                         of the rules from the position          -> C01  *)
(*   go ...                exactly one bestmove, legal             -> C05  *)
(*   isready               readyok                                 -> C06  *)
(*   uci                   ends with uciok; anything else: Unknown command *)
(***************************************************************************)
EXTENDS ChessText, Json, IOUtils
T == ndJsonDeserialize(IOEnv.TRACE)
VARIABLES l, pos, cnt
Words(s) == Split(s, 1, "", <<>>)
StartsWith(s, pre) == Len(s) >= Len(pre) /\ SubSeq(s, 1, Len(pre)) = pre
ToSet(seq) == {seq[i] : i \in 1..Len(seq)}
V(ln, prop, kind, detail) == [line |-> ln, prop |-> prop, kind |-> kind, detail |-> detail]

RECURSIVE PlayWords(_,_,_)
PlayWords(p, w, i) == IF i > Len(w) THEN p
                      ELSE IF w[i] = "moves" THEN PlayWords(p, w, i + 1)
                      ELSE PlayWords(Apply(p, ParseUci(w[i])), w, i + 1)
RECURSIVE JoinWords(_,_,_)
JoinWords(w, i, j) == IF i > j THEN "" ELSE w[i] \o (IF i < j THEN " " ELSE "") \o JoinWords(w, i + 1, j)
IndexOf(w, x) == IF \E i \in 1..Len(w) : w[i] = x THEN CHOOSE i \in 1..Len(w) : w[i] = x /\ \A j \in 1..(i - 1) : w[j] # x ELSE 0

AfterPosition(w) ==      \* w = words of a `position ...` command
  LET mi == IndexOf(w, "moves")
      base == IF w[2] = "startpos" THEN StartPos
              ELSE ParseFen(JoinWords(w, 3, IF mi = 0 THEN Len(w) ELSE mi - 1))
  IN IF mi = 0 THEN base ELSE PlayWords(base, w, mi + 1)

RECURSIVE Perft(_,_)
Perft(p, d) == IF d = 0 THEN 1 ELSE
  LET L == Legal(p) IN IF d = 1 THEN Cardinality(L) ELSE
  LET RECURSIVE Sum(_)
      Sum(S) == IF S = {} THEN 0 ELSE LET m == CHOOSE x \in S : TRUE IN Perft(Apply(p, m), d - 1) + Sum(S \ {m})
  IN Sum(L)

\* "e2e4: 20" -> <<"e2e4", 20>>
PerftLine(s) == LET w == Words(s) IN <<SubSeq(w[1], 1, Len(w[1]) - 1), Num(w[2], 1, 0)>>
IsPerftLine(s) == LET w == Words(s) IN Len(w) = 2 /\ Len(w[1]) \in {5, 6} /\ Ch(w[1], Len(w[1])) = ":" /\ WellFormedUci(SubSeq(w[1], 1, Len(w[1]) - 1))

Process(p, ev, ln) ==
  LET w == Words(ev.text)
      o == ev.out
      c == IF w = <<>> THEN "" ELSE w[1]
  IN CASE c = "ucinewgame" -> [pos |-> StartPos, viol |-> <<>>, k |-> "newgame"]
       [] c = "position" /\ Len(w) >= 2 /\ (w[2] = "startpos" \/ (w[2] = "fen" /\ Len(w) >= 6)) -> [pos |-> AfterPosition(w), viol |-> <<>>, k |-> "position"]
       [] c = "moves" -> [pos |-> PlayWords(p, w, 2), viol |-> <<>>, k |-> "moves"]
       [] c = "printboard" ->
            LET fl == {o[i] : i \in {j \in 1..Len(o) : StartsWith(o[j], "Fen: ")}}
                want == "Fen: \"" \o Fen(p) \o "\""
            IN [pos |-> p, k |-> "printboard",
                viol |-> IF fl = {want} THEN <<>> ELSE <<V(ln, "C02", "session_position", [expected |-> want, printed |-> fl])>>]
       [] c = "perft" ->
            LET d == Num(w[2], 1, 0)
                L == Legal(p)
                want == {<<Uci(m), Perft(Apply(p, m), d - 1)>> : m \in L}
                got == {PerftLine(o[i]) : i \in {j \in 1..Len(o) : IsPerftLine(o[j])}}
                tot == {o[i] : i \in {j \in 1..Len(o) : StartsWith(o[j], "Number of nodes: ")}}
                total == Perft(p, d)
            IN [pos |-> p, k |-> "perft",
                viol |-> (IF d >= 1 /\ got # want THEN <<V(ln, "C01", "perft_divide", [fen |-> Fen(p), depth |-> d, missing |-> want \ got, extra |-> got \ want])>> ELSE <<>>)
                         \o (IF tot # {"Number of nodes: " \o ToString(total)} THEN <<V(ln, "C01", "perft_total", [fen |-> Fen(p), depth |-> d, expected |-> total, printed |-> tot])>> ELSE <<>>)]
       [] c = "go" ->
            LET bl == [i \in {j \in 1..Len(o) : StartsWith(o[j], "bestmove ")} |-> Words(o[i])[2]]
                legalU == {Uci(m) : m \in Legal(p)}
            IN [pos |-> p, k |-> "go",
                viol |-> (IF Cardinality(DOMAIN bl) # 1 THEN <<V(ln, "C05", "bestmove_count", [fen |-> Fen(p), go |-> ev.text, count |-> Cardinality(DOMAIN bl)])>> ELSE <<>>)
                         \o (IF \E i \in DOMAIN bl : bl[i] \notin legalU THEN <<V(ln, "C05", "illegal_bestmove", [fen |-> Fen(p), go |-> ev.text, bestmove |-> {bl[i] : i \in DOMAIN bl}])>> ELSE <<>>)]
       [] c = "isready" -> [pos |-> p, k |-> "isready",
                            viol |-> IF "readyok" \in ToSet(o) THEN <<>> ELSE <<V(ln, "C06", "isready_not_answered", [out |-> o])>>]
       [] c = "uci" -> [pos |-> p, k |-> "uci", viol |-> IF "uciok" \in ToSet(o) THEN <<>> ELSE <<V(ln, "X", "no_uciok", [out |-> o])>>]
       [] c \in {"setoption", "stop", "ponderhit", "hash", "staticeval"} -> [pos |-> p, k |-> "other", viol |-> <<>>]
       [] OTHER -> [pos |-> p, k |-> "unknown",
                    viol |-> IF "Unknown command" \in ToSet(o) THEN <<>> ELSE <<V(ln, "X", "unknown_command_not_reported", [text |-> ev.text, out |-> o])>>]

Kinds == {"newgame", "position", "moves", "printboard", "perft", "go", "isready", "uci", "other", "unknown", "viol"}
Init == l = 1 /\ pos = StartPos /\ cnt = [k \in Kinds |-> 0]
Next == /\ l <= Len(T)
        /\ \E r \in {Process(pos, T[l], l)} :
             /\ pos' = r.pos
             /\ cnt' = [k \in Kinds |-> cnt[k] + (IF k = r.k THEN 1 ELSE 0) + (IF k = "viol" /\ r.viol # <<>> THEN 1 ELSE 0)]
             /\ \A i \in 1..Len(r.viol) : PrintT("VIOL " \o ToJson(r.viol[i]))
        /\ l' = l + 1
Done == (l = Len(T) + 1) => PrintT("CNT " \o ToJson(cnt))
Consumed == TLCGet("stats").diameter = Len(T) + 1
=============================================================================
