------------------------------- MODULE RefereeTrace -------------------------------
(***************************************************************************)
(* Conformance monitor (code -> spec) for the regression tool's referee:   *)
(* one line per game played by the real `regression` binary between two    *)
(* scripted engines: {script: [uci ..], sans: [..], result, tagresult,     *)
(* numbers_ok, exit}.  The monitor replays the script with the rules       *)
(* specification and checks                                                *)
(*   stopped_early / played_on   the record ends exactly where the game is *)
(*                               over (Referee!Over), not before, not after*)
(*   wrong_result                result = Referee!Outcome of the final     *)
(*                               position; tag and movetext result agree   *)
(*   san_wrong                   every recorded SAN denotes exactly the    *)
(*                               move played, with the +/# suffix of the   *)
(*                               position it leads to                      *)
(***************************************************************************)
EXTENDS RefereeDefs, Json, IOUtils
T == ndJsonDeserialize(IOEnv.TRACE)
VARIABLES l, cnt
Keys == {"games", "mate", "stalemate", "fifty", "threefold", "material", "moves", "viol"}
TInit == l = 1 /\ cnt = [k \in Keys |-> 0]
Bump(c, ks, nmoves) == [k \in DOMAIN c |-> IF k = "moves" THEN c[k] + nmoves ELSE IF k \in ks THEN c[k] + 1 ELSE c[k]]

\* walk the script: returns the first index (0-based count of moves played) at which the game is over, the game there, and SAN faults
RECURSIVE Walk(_, _, _, _, _)
Walk(g, script, sans, i, faults) ==
  IF Over(g) \/ i > Len(script) THEN [g |-> g, played |-> i - 1, faults |-> faults]
  ELSE LET m == ParseUci(script[i])
           L == Legal(g.cur)
           g2 == Commit(Do(g, m))
           L2 == Legal(g2.cur)
           want == IF InCheck(g2.cur) THEN (IF L2 = {} THEN "#" ELSE "+") ELSE ""
           s == IF i <= Len(sans) THEN sans[i] ELSE ""
           body == StripSuffix(s)
           suf == SubSeq(s, Len(body) + 1, Len(s))
           ok == i > Len(sans) \/ (SanRead(g.cur, L, body) = {m} /\ suf = want)
       IN Walk(g2, script, sans, i + 1, IF ok THEN faults ELSE Append(faults, [ply |-> i, move |-> script[i], san |-> s, fen |-> Fen(g.cur)]))

Game(ev, ln) ==
  LET w == Walk(NewGame(StartPos), ev.script, ev.sans, 1, <<>>)
      fin == w.g
      kind == IF Legal(fin.cur) = {} THEN (IF InCheck(fin.cur) THEN "mate" ELSE "stalemate")
              ELSE IF Threefold(fin) THEN "threefold" ELSE IF Rule50(fin) THEN "fifty" ELSE IF Insufficient(fin.cur) THEN "material" ELSE "open"
      v0 == IF ev.exit # 0 THEN <<[line |-> ln, kind |-> "referee_failed", detail |-> [exit |-> ev.exit, recorded |-> Len(ev.sans), over_after |-> w.played]]>> ELSE <<>>
      v1 == IF ev.exit = 0 /\ Len(ev.sans) < w.played THEN <<[line |-> ln, kind |-> "stopped_early", detail |-> [recorded |-> Len(ev.sans), over_after |-> w.played, fen |-> Fen(fin.cur)]]>> ELSE <<>>
      v2 == IF ev.exit = 0 /\ Len(ev.sans) > w.played THEN <<[line |-> ln, kind |-> "played_on", detail |-> [recorded |-> Len(ev.sans), over_after |-> w.played, how |-> kind, fen |-> Fen(fin.cur)]]>> ELSE <<>>
      v3 == IF ev.exit = 0 /\ Len(ev.sans) = w.played /\ (ev.result # Outcome(fin) \/ ev.tagresult # ev.result)
            THEN <<[line |-> ln, kind |-> "wrong_result", detail |-> [result |-> ev.result, tag |-> ev.tagresult, expected |-> Outcome(fin), how |-> kind, fen |-> Fen(fin.cur)]]>> ELSE <<>>
      v4 == IF w.faults # <<>> THEN <<[line |-> ln, kind |-> "san_wrong", detail |-> w.faults[1]]>> ELSE <<>>
      v5 == IF ev.exit = 0 /\ ~ev.numbers_ok THEN <<[line |-> ln, kind |-> "move_numbers", detail |-> [recorded |-> Len(ev.sans)]]>> ELSE <<>>
  IN [viol |-> v0 \o v1 \o v2 \o v3 \o v4 \o v5, bumps |-> {"games", kind}, n |-> w.played]

TNext == /\ l <= Len(T)
         /\ \E r \in {Game(T[l], l)} :
              /\ \A i \in 1..Len(r.viol) : PrintT("VIOL " \o ToJson(r.viol[i]))
              /\ cnt' = Bump(cnt, r.bumps \cup (IF r.viol # <<>> THEN {"viol"} ELSE {}), r.n)
         /\ l' = l + 1
Done == (l = Len(T) + 1) => PrintT("CNT " \o ToJson(cnt))
Consumed == TLCGet("stats").diameter = Len(T) + 1
=============================================================================
