------------------------------- MODULE RefereeTrace -------------------------------
(***************************************************************************)
(* Conformance monitor (code -> spec) for the regression tool's referee:   *)
(* one line per game played by the real `regression` binary between two    *)
(* scripted engines: {script: [uci ..], sans: [..], result, tagresult,     *)
(* numbers_ok, exit}.  The monitor replays the script with the rules       *)
(* specification and checks                                                *)
(*   stopped_early / played_on   the record ends exactly where the game is *)
(*                               over (Referee!Over), not before, not after*)
(*   wrong_result                result = Referee!Outcome of the final     *)
(*                               position; tag and movetext result agree   *)
(*   san_wrong                   every recorded SAN denotes exactly the    *)
(*                               move played, with the +/# suffix of the   *)
(*                               position it leads to                      *)
(***************************************************************************)
EXTENDS RefereeDefs, Json, IOUtils
T == ndJsonDeserialize(IOEnv.TRACE)
VARIABLES l, cnt
Keys == {"games", "engines", "mate", "stalemate", "fifty", "threefold", "material", "moves", "viol"}
TInit == l = 1 /\ cnt = [k \in Keys |-> 0]
Bump(c, ks, nmoves) == [k \in DOMAIN c |-> IF k = "moves" THEN c[k] + nmoves ELSE IF k \in ks THEN c[k] + 1 ELSE c[k]]

\* walk the script: returns the first index (0-based count of moves played) at which the game is over, the game there, and SAN faults
RECURSIVE Walk(_, _, _, _, _)
Walk(g, script, sans, i, faults) ==
  IF Over(g) \/ i > Len(script) THEN [g |-> g, played |-> i - 1, faults |-> faults]
  ELSE LET m == ParseUci(script[i])
           L == Legal(g.cur)
           g2 == Commit(Do(g, m))
           L2 == Legal(g2.cur)
           want == IF InCheck(g2.cur) THEN (IF L2 = {} THEN "#" ELSE "+") ELSE ""
           s == IF i <= Len(sans) THEN sans[i] ELSE ""
           body == StripSuffix(s)
           suf == SubSeq(s, Len(body) + 1, Len(s))
           ok == i > Len(sans) \/ (SanRead(g.cur, L, body) = {m} /\ suf = want)
       IN Walk(g2, script, sans, i + 1, IF ok THEN faults ELSE Append(faults, [ply |-> i, move |-> script[i], san |-> s, fen |-> Fen(g.cur)]))

Game(ev, ln) ==
  LET w == Walk(NewGame(StartPos), ev.script, ev.sans, 1, <<>>)
      fin == w.g
      kind == IF Legal(fin.cur) = {} THEN (IF InCheck(fin.cur) THEN "mate" ELSE "stalemate")
              ELSE IF Threefold(fin) THEN "threefold" ELSE IF Rule50(fin) THEN "fifty" ELSE IF Insufficient(fin.cur) THEN "material" ELSE "open"
      v0 == IF ev.exit # 0 THEN <<[line |-> ln, kind |-> "referee_failed", detail |-> [exit |-> ev.exit, recorded |-> Len(ev.sans), over_after |-> w.played]]>> ELSE <<>>
      v1 == IF ev.exit = 0 /\ Len(ev.sans) < w.played THEN <<[line |-> ln, kind |-> "stopped_early", detail |-> [recorded |-> Len(ev.sans), over_after |-> w.played, fen |-> Fen(fin.cur)]]>> ELSE <<>>
      v2 == IF ev.exit = 0 /\ Len(ev.sans) > w.played THEN <<[line |-> ln, kind |-> "played_on", detail |-> [recorded |-> Len(ev.sans), over_after |-> w.played, how |-> kind, fen |-> Fen(fin.cur)]]>> ELSE <<>>
      v3 == IF ev.exit = 0 /\ Len(ev.sans) = w.played /\ (ev.result # Outcome(fin) \/ ev.tagresult # ev.result)
            THEN <<[line |-> ln, kind |-> "wrong_result", detail |-> [result |-> ev.result, tag |-> ev.tagresult, expected |-> Outcome(fin), how |-> kind, fen |-> Fen(fin.cur)]]>> ELSE <<>>
      v4 == IF w.faults # <<>> THEN <<[line |-> ln, kind |-> "san_wrong", detail |-> w.faults[1]]>> ELSE <<>>
      v5 == IF ev.exit = 0 /\ ~ev.numbers_ok THEN <<[line |-> ln, kind |-> "move_numbers", detail |-> [recorded |-> Len(ev.sans)]]>> ELSE <<>>
  IN [viol |-> v0 \o v1 \o v2 \o v3 \o v4 \o v5, bumps |-> {"games", kind}, n |-> w.played]

\* what the referee sends to an engine (one line per engine process: the first words of the commands, and the full setoption lines)
\* must be the GUI side of the UCI protocol: known commands only, `uci` first, options before the game, a position before every go
GuiCommands == {"uci", "isready", "ucinewgame", "setoption", "position", "go", "stop", "quit", "ponderhit", "debug", "register"}
Proto(ev, ln) ==
  LET w == ev.words
      n == Len(w)
      unknown == {i \in 1..n : w[i] \notin GuiCommands}
      goNoPos == {i \in 1..n : w[i] = "go" /\ ~\E j \in 1..(i - 1) : w[j] = "position" /\ \A k \in (j + 1)..(i - 1) : w[k] # "go"}
      optsWanted == ev.options
      optsSent == {i \in 1..n : w[i] = "setoption"}
      v1 == IF n = 0 \/ w[1] # "uci" THEN <<[line |-> ln, kind |-> "protocol_uci_not_first", detail |-> [first |-> IF n = 0 THEN "" ELSE w[1]]]>> ELSE <<>>
      v2 == IF unknown # {} THEN <<[line |-> ln, kind |-> "protocol_unknown_command_sent", detail |-> [command |-> w[CHOOSE i \in unknown : TRUE], options_wanted |-> optsWanted]]>> ELSE <<>>
      v3 == IF goNoPos # {} THEN <<[line |-> ln, kind |-> "protocol_go_without_position", detail |-> [index |-> CHOOSE i \in goNoPos : TRUE]]>> ELSE <<>>
      v4 == IF Cardinality(optsSent) # optsWanted THEN <<[line |-> ln, kind |-> "protocol_options_not_set", detail |-> [wanted |-> optsWanted, setoption_commands |-> Cardinality(optsSent)]]>> ELSE <<>>
  IN [viol |-> v1 \o v2 \o v3 \o v4, bumps |-> {"engines"}, n |-> 0]

TNext == /\ l <= Len(T)
         /\ \E r \in {IF "words" \in DOMAIN T[l] THEN Proto(T[l], l) ELSE Game(T[l], l)} :
              /\ \A i \in 1..Len(r.viol) : PrintT("VIOL " \o ToJson(r.viol[i]))
              /\ cnt' = Bump(cnt, r.bumps \cup (IF r.viol # <<>> THEN {"viol"} ELSE {}), r.n)
         /\ l' = l + 1
Done == (l = Len(T) + 1) => PrintT("CNT " \o ToJson(cnt))
Consumed == TLCGet("stats").diameter = Len(T) + 1
=============================================================================
