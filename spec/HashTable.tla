------------------------------- MODULE HashTable -------------------------------
(***************************************************************************)
(* The engine's direct-mapped, always-replace hash table with epochs       *)
(* (hashmap.h: transposition table and pawn cache), as a state machine,    *)
(* and a generator of operation sequences with the results every probe /   *)
(* hashfull query must return (spec -> code replay into the real template, *)
(* instantiated with 1024 slots).                                          *)
(*                                                                         *)
(* State: table[slot] = <<key, epoch, value>> (slot = key mod Size), the   *)
(* current epoch.  Operations: Insert(k, v) (always replaces, stamps the   *)
(* current epoch), Probe(k) (found iff the stored key equals k; returns    *)
(* the stored value), Clear (every entry back to its initial state: after  *)
(* it no key is found with a stale value; key 0 hits an empty slot, which  *)
(* then holds the initial value and epoch 0), UpdateEpoch(n),              *)
(* HashFull (number of the first min(1000, Size) slots stamped with the    *)
(* current epoch).                                                         *)
(***************************************************************************)
EXTENDS Integers, Sequences, FiniteSets, TLC, Json

CONSTANTS Size,        \* number of slots of the model table
          Keys,        \* keys used by the generator (several per slot, key 0 included)
          MaxOps

Slot(k) == k % Size
Empty == <<0, 0, 0>>                       \* initial entry: key 0, epoch 0, value 0
InitTable == [s \in 0..(Size - 1) |-> Empty]

VARIABLES table, epoch, ops, log
vars == <<table, epoch, ops, log>>
Init == table = InitTable /\ epoch = 1 /\ ops = 0 /\ log = <<>>

Found(t, k) == t[Slot(k)][1] = k
ProbeResult(t, k) == IF Found(t, k) THEN <<1, t[Slot(k)][3], t[Slot(k)][2]>> ELSE <<0, 0, 0>>
HashFull(t, e) == Cardinality({s \in 0..(Size - 1) : s < 1000 /\ t[s][2] = e})

Insert(k, v) == /\ ops < MaxOps /\ table' = [table EXCEPT ![Slot(k)] = <<k, epoch, v>>]
                /\ log' = Append(log, <<"insert", k, v>>) /\ ops' = ops + 1 /\ UNCHANGED epoch
Probe(k) == /\ ops < MaxOps /\ log' = Append(log, <<"probe", k>> \o ProbeResult(table, k))
            /\ ops' = ops + 1 /\ UNCHANGED <<table, epoch>>
Clear == /\ ops < MaxOps /\ table' = InitTable /\ log' = Append(log, <<"clear">>) /\ ops' = ops + 1 /\ UNCHANGED epoch
Bump(n) == /\ ops < MaxOps /\ epoch' = epoch + n /\ log' = Append(log, <<"epoch", n>>) /\ ops' = ops + 1 /\ UNCHANGED table
Full == /\ ops < MaxOps /\ log' = Append(log, <<"hashfull", HashFull(table, epoch)>>) /\ ops' = ops + 1 /\ UNCHANGED <<table, epoch>>

Next == \/ \E k \in Keys, v \in {7, 8} : Insert(k, v)
        \/ \E k \in Keys : Probe(k)
        \/ Clear \/ Bump(1) \/ Full

\* design invariants
\* a probe never reports a value that was not the last one inserted under that key since the last clear
NoStaleAfterClear == \A i \in 1..Len(log) : log[i][1] = "clear" =>
   \A j \in (i + 1)..Len(log) : (log[j][1] = "probe" /\ log[j][3] = 1) =>
       \/ \E m \in (i + 1)..(j - 1) : log[m][1] = "insert" /\ log[m][2] = log[j][2]
       \/ (log[j][2] = 0 /\ log[j][4] = 0 /\ log[j][5] = 0)     \* key 0 "hits" an empty slot: it must then carry the INITIAL entry (value 0, epoch 0)
HashFullInRange == HashFull(table, epoch) \in 0..(IF Size < 1000 THEN Size ELSE 1000)
\* emission of complete behaviours for the replay
Emit == (ops = MaxOps) => PrintT("HT " \o ToJson([ops |-> log]))
=============================================================================
