INIT MInit
NEXT MNext
INVARIANT MDone
POSTCONDITION Consumed
CHECK_DEADLOCK FALSE
