------------------------------- MODULE ChessGame -------------------------------
(***************************************************************************)
(* The game / make-unmake machine on top of the rules.                     *)
(*                                                                         *)
(* State: the current position, the history of position identities since   *)
(* the root (what repetition detection is about) and the stack of undo     *)
(* frames (what make/unmake is about).  One action per public operation of *)
(* the engine's Position object: SetFen, Do, Undo, DoNull, UndoNull.       *)
(* A game state is a record so that the same operators serve the           *)
(* exhaustive small-root configuration (ChessGameMC) and the trace monitor *)
(* (RulesTrace).                                                           *)
(***************************************************************************)
EXTENDS ChessText

\* capacities of the implementation, as constants of the design
MAX_PLIES == 800       \* history entries, root included
MAX_MOVES == 512       \* move list buffers
SAN_MOVES == 128       \* local array in the SAN printer
MAX_OF_A_KIND == 10    \* piece list length
HMC_MAX == 255         \* 8-bit half-move clock

NewGame(p) == [cur |-> p, past |-> <<Id(p)>>, stack |-> <<>>, nulls |-> 0]

\* a frame remembers everything Undo must bring back
Frame(g) == [cur |-> g.cur, pastLen |-> Len(g.past), nulls |-> g.nulls]

Do(g, m) == LET q == Apply(g.cur, m) IN
  [cur |-> q, past |-> Append(g.past, Id(q)), stack |-> Append(g.stack, Frame(g)), nulls |-> g.nulls]
DoNull(g) == LET q == ApplyNull(g.cur) IN
  [cur |-> q, past |-> g.past, stack |-> Append(g.stack, Frame(g)), nulls |-> g.nulls + 1]
Undo(g) == LET f == g.stack[Len(g.stack)] IN
  [cur |-> f.cur, past |-> SubSeq(g.past, 1, f.pastLen), stack |-> SubSeq(g.stack, 1, Len(g.stack) - 1), nulls |-> f.nulls]
Commit(g) == [g EXCEPT !.stack = <<>>]

\* --------------------------------------------------------------- history predicates (C07)
Occurrences(g) == Cardinality({i \in 1..Len(g.past) : g.past[i] = Id(g.cur)})
Repeated(g) == \E i \in 1..(Len(g.past) - 1) : g.past[i] = Id(g.cur)
Threefold(g) == Occurrences(g) >= 3
Rule50(g) == g.cur.hmc >= 100
IsDraw(g) == Rule50(g) \/ Threefold(g) \/ Insufficient(g.cur)

\* The automatic ends of a game (FIDE 5.2, 9.6): mate, stalemate, 75 moves, fivefold.
\* A "legal game" in C02/C07/C10 never continues past one of these.
GameOver(g, legal) == legal = {} \/ g.cur.hmc >= 150 \/ Occurrences(g) >= 5

\* --------------------------------------------------------------- capacity invariants (C10, design level)
WithinCapacity(g, legal) ==
  /\ Len(g.past) <= MAX_PLIES
  /\ Cardinality(legal) <= MAX_MOVES
  /\ g.cur.hmc <= HMC_MAX
  /\ \A pc \in 1..12 : Count(g.cur.board, pc) <= MAX_OF_A_KIND

\* --------------------------------------------------------------- rule-level sanity of positions
SanePosition(p) ==
  /\ Count(p.board, 6) = 1 /\ Count(p.board, 12) = 1
  /\ ~Attacked(p.board, KingSq(p.board, 1 - p.stm), p.stm)
  /\ (HasBit(p.castle, 1) => p.board[4] = 6 /\ p.board[7] = 4)
  /\ (HasBit(p.castle, 2) => p.board[4] = 6 /\ p.board[0] = 4)
  /\ (HasBit(p.castle, 4) => p.board[60] = 12 /\ p.board[63] = 10)
  /\ (HasBit(p.castle, 8) => p.board[60] = 12 /\ p.board[56] = 10)
  /\ (p.ep # -1 => LET c == 1 - p.stm IN
        /\ Rank(p.ep) = (IF c = 0 THEN 2 ELSE 5)
        /\ p.board[p.ep + (IF c = 0 THEN 8 ELSE -8)] = Piece(c, PAWN)
        /\ p.board[p.ep] = 0 /\ p.board[p.ep - (IF c = 0 THEN 8 ELSE -8)] = 0)
  /\ \A s \in Sq : KindOf(p.board[s]) = PAWN => Rank(s) \in 1..6
=============================================================================
