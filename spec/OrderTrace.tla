------------------------------- MODULE OrderTrace -------------------------------
(***************************************************************************)
(* Conformance monitor (code -> spec) for MoveOrder: every observed call   *)
(* of MoveOrderer::order_moves {fen, in, out, sc, pv, tt, k1, k2, prevto,  *)
(* q} is checked against the spec:                                         *)
(*   not_permutation   out is not a permutation of in, or in is not the    *)
(*                     set of legal moves of the position                  *)
(*   not_sorted        the spec's scores increase somewhere along out      *)
(*   score_differs     the engine's score of a move is not the spec's      *)
(* Observations are counted per class of the first move and per feature.   *)
(***************************************************************************)
EXTENDS MoveOrder, Json, IOUtils
T == ndJsonDeserialize(IOEnv.TRACE)

VARIABLES l, cnt
Keys == {"calls", "warm", "synthetic", "first_pv", "first_tt", "first_capture", "first_promotion", "first_killer", "first_quiet",
         "recapture", "clamped", "ep_in_list", "castle_in_list", "viol"}
Init == l = 1 /\ cnt = [k \in Keys |-> 0]
Bump(c, ks) == [k \in DOMAIN c |-> IF k \in ks THEN c[k] + 1 ELSE c[k]]

MoveOr(s) == IF s = "" THEN -1 ELSE ParseUci(s)
IsRaw(s) == Len(s) > 0 /\ SubSeq(s, 1, 1) = "#"

Obs(ev, ln) ==
  LET pos == ParseFen(ev.fen)
      n == Len(ev.in)
      inm == [i \in 1..n |-> ParseUci(ev.in[i])]
      raw == \E i \in 1..Len(ev.out) : IsRaw(ev.out[i])
      outm == [i \in 1..Len(ev.out) |-> IF IsRaw(ev.out[i]) THEN -2 ELSE ParseUci(ev.out[i])]
      ctx == [pv |-> MoveOr(ev.pv), tt |-> MoveOr(ev.tt), k1 |-> MoveOr(ev.k1), k2 |-> MoveOr(ev.k2), prevto |-> ev.prevto,
              quiet |-> [m \in {inm[i] : i \in 1..n} |-> ev.q[CHOOSE i \in 1..n : inm[i] = m]]]
      perm == ~raw /\ IsPermutation(inm, outm) /\ {inm[i] : i \in 1..n} = Legal(pos) /\ Cardinality(Legal(pos)) = n
      specsc == IF perm THEN [i \in 1..n |-> Score(pos, outm[i], ctx)] ELSE <<>>
      v1 == IF ~perm THEN <<[line |-> ln, kind |-> "not_permutation", fen |-> ev.fen, detail |-> [in |-> ev.in, out |-> ev.out]]>> ELSE <<>>
      v2 == IF perm /\ ~Sorted(pos, outm, ctx) THEN <<[line |-> ln, kind |-> "not_sorted", fen |-> ev.fen, detail |-> [out |-> ev.out, spec |-> specsc]]>> ELSE <<>>
      bad == IF perm THEN {i \in 1..n : specsc[i] # ev.sc[i]} ELSE {}
      v3 == IF bad # {} THEN LET i == CHOOSE j \in bad : \A k \in bad : j <= k IN
               <<[line |-> ln, kind |-> "score_differs", fen |-> ev.fen, detail |-> [move |-> ev.out[i], engine |-> ev.sc[i], spec |-> specsc[i], ctx |-> [pv |-> ev.pv, tt |-> ev.tt, k1 |-> ev.k1, k2 |-> ev.k2, prevto |-> ev.prevto]]]>> ELSE <<>>
      first == IF perm THEN specsc[1] ELSE -1
      cls == IF first = PV_SCORE THEN {"first_pv"} ELSE IF first = TT_SCORE THEN {"first_tt"} ELSE IF first >= CAPTURE_SCORE THEN {"first_capture"}
             ELSE IF first >= PROMOTION_SCORE THEN {"first_promotion"} ELSE IF first >= KILLER_2_SCORE THEN {"first_killer"} ELSE IF first >= 0 THEN {"first_quiet"} ELSE {}
      feats == (IF perm /\ \E i \in 1..n : specsc[i] >= CAPTURE_SCORE + 40 /\ specsc[i] < TT_SCORE THEN {"recapture"} ELSE {})
               \cup (IF \E i \in 1..n : ev.q[i] > MAX_QUIET_SCORE THEN {"clamped"} ELSE {})
               \cup (IF \E i \in 1..n : IsEnPassant(pos, inm[i]) THEN {"ep_in_list"} ELSE {})
               \cup (IF \E i \in 1..n : IsCastle(pos, inm[i]) THEN {"castle_in_list"} ELSE {})
  IN [viol |-> v1 \o v2 \o v3, bumps |-> {"calls", ev.src} \cup cls \cup feats]

Next == /\ l <= Len(T)
        /\ \E r \in {Obs(T[l], l)} :
             /\ \A i \in 1..Len(r.viol) : PrintT("VIOL " \o ToJson(r.viol[i]))
             /\ cnt' = Bump(cnt, r.bumps \cup (IF r.viol # <<>> THEN {"viol"} ELSE {}))
        /\ l' = l + 1
Done == (l = Len(T) + 1) => PrintT("CNT " \o ToJson(cnt))
Consumed == TLCGet("stats").diameter = Len(T) + 1
=============================================================================
