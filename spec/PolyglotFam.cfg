INIT Init
NEXT Next
INVARIANT Emit
CHECK_DEADLOCK FALSE
