CONSTANTS B = 2 D = 3 MATE = 10 MAXD = 4 Variant = "engine"
 Vals <- MCVals3
 Windows <- MCWindows
INIT Init
NEXT Next
INVARIANTS TableEntriesSound
CHECK_DEADLOCK FALSE
