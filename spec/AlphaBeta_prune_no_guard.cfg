CONSTANTS B = 2 D = 3 MATE = 10 MAXD = 4 Variant = "no_guard"
 Vals <- MCVals2
 Windows <- MCWindows
INIT InitPrune
NEXT Next
INVARIANTS MateClaimsSound
CHECK_DEADLOCK FALSE
