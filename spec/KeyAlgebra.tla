------------------------------- MODULE KeyAlgebra -------------------------------
(***************************************************************************)
(* Design model of the engine's Zobrist bookkeeping (C04).                 *)
(*                                                                         *)
(* A key is a SET OF ATOMS; XOR of independent random words is symmetric   *)
(* difference of the atom sets (exact unless random words collide).  The   *)
(* engine keeps five components (piece, pawn, en passant, castling, side)  *)
(* and updates them incrementally on every code path of do_move /          *)
(* undo_move / do_null_move / undo_null_move.  Each path is transcribed    *)
(* here with the calls in the order of the code; the invariant is          *)
(*     incremental key = key computed from scratch from the position       *)
(* in every state reachable by nested make / unmake / null-move sequences  *)
(* from small-material roots (composed with ChessGame's Apply).            *)
(*                                                                         *)
(* Constants select known-bad variants so that the same model documents    *)
(* what the invariant protects against:                                    *)
(*   NullClearsEp  = FALSE : do_null_move forgets clear_enpassant          *)
(*   CaptureUpdatesCastle = FALSE : set_castling skipped when a rook is    *)
(*                           captured on its home square                   *)
(***************************************************************************)
EXTENDS ChessGame
CONSTANTS Roots, MaxDepth, NullClearsEp, CaptureUpdatesCastle

SymDiff(a, b) == (a \ b) \cup (b \ a)
PcAtom(p, s) == <<"pc", p, s>>
Scratch(pos) ==
  [piece |-> {PcAtom(pos.board[s], s) : s \in {t \in Sq : pos.board[t] # 0 /\ KindOf(pos.board[t]) # PAWN}},
   pawn  |-> {PcAtom(pos.board[s], s) : s \in {t \in Sq : KindOf(pos.board[t]) = PAWN}},
   ep    |-> IF pos.ep = -1 THEN {} ELSE {<<"ep", File(pos.ep)>>},
   castle |-> {<<"castle", pos.castle>>},
   side  |-> IF pos.stm = 1 THEN {<<"side">>} ELSE {}]
FullKey(k) == SymDiff(SymDiff(SymDiff(SymDiff(k.piece, k.pawn), k.ep), k.castle), k.side)

Toggle(k, p, s) == IF KindOf(p) = PAWN THEN [k EXCEPT !.pawn = SymDiff(@, {PcAtom(p, s)})]
                                       ELSE [k EXCEPT !.piece = SymDiff(@, {PcAtom(p, s)})]
MovePiece(k, p, f, t) == Toggle(Toggle(k, p, f), p, t)
FlipSide(k) == [k EXCEPT !.side = SymDiff(@, {<<"side">>})]
ClearEp(k) == [k EXCEPT !.ep = {}]
SetEp(k, file) == [k EXCEPT !.ep = {<<"ep", file>>}]
SetCastle(k, r) == [k EXCEPT !.castle = {<<"castle", r>>}]

\* do_move, path by path (position.cpp): pos is the position BEFORE the move, np the one after it by the rules
DoKey(k0, pos, m) ==
  LET c == pos.stm  f == MFrom(m)  t == MTo(m)  p == pos.board[f]
      np == Apply(pos, m)
      k1 == ClearEp(FlipSide(k0))
  IN IF IsCastle(pos, m)
     THEN LET rf == IF t > f THEN f + 3 ELSE f - 4   rt == IF t > f THEN f + 1 ELSE f - 1 IN
          SetCastle(MovePiece(MovePiece(k1, p, f, t), Piece(c, ROOK), rf, rt), np.castle)
     ELSE IF IsEnPassant(pos, m)
     THEN Toggle(MovePiece(k1, p, f, t), Piece(1 - c, PAWN), MkSq(File(t), Rank(f)))       \* set_castling is not called on this path
     ELSE LET k2 == IF pos.board[t] # 0 THEN Toggle(k1, pos.board[t], t) ELSE k1
              k3 == IF MPromo(m) # 0 THEN Toggle(Toggle(k2, p, f), Piece(c, MPromo(m)), t) ELSE MovePiece(k2, p, f, t)
              rookHomeCapture == pos.board[t] # 0 /\ KindOf(pos.board[t]) = ROOK /\ RightsLostAt(t) # {} /\ RightsLostAt(f) = {}
              k4 == IF ~CaptureUpdatesCastle /\ rookHomeCapture THEN k3 ELSE SetCastle(k3, np.castle)
          IN IF np.ep # -1 THEN SetEp(k4, File(np.ep)) ELSE k4
\* undo_move: rights and ep restored from the move record, pieces toggled back
UndoKey(k0, prev, m) ==
  LET c == prev.stm  f == MFrom(m)  t == MTo(m)  p == prev.board[f]
      k1 == SetCastle(FlipSide(k0), prev.castle)
      k2 == IF prev.ep = -1 THEN ClearEp(k1) ELSE SetEp(k1, File(prev.ep))
  IN IF IsCastle(prev, m)
     THEN LET rf == IF t > f THEN f + 3 ELSE f - 4   rt == IF t > f THEN f + 1 ELSE f - 1 IN
          MovePiece(MovePiece(k2, p, t, f), Piece(c, ROOK), rt, rf)
     ELSE LET k3 == IF IsEnPassant(prev, m) THEN Toggle(k2, Piece(1 - c, PAWN), MkSq(File(t), Rank(f))) ELSE k2
              k4 == IF MPromo(m) # 0 THEN Toggle(Toggle(k3, p, f), Piece(c, MPromo(m)), t) ELSE MovePiece(k3, p, t, f)
          IN IF prev.board[t] # 0 THEN Toggle(k4, prev.board[t], t) ELSE k4
DoNullKey(k0) == IF NullClearsEp THEN ClearEp(FlipSide(k0)) ELSE FlipSide(k0)
UndoNullKey(k0, prev) == LET k1 == FlipSide(k0) IN IF prev.ep # -1 THEN SetEp(k1, File(prev.ep)) ELSE k1

VARIABLES g, key, trail     \* game state, incremental key, stack of <<kind, move>> of the frames
vars == <<g, key, trail>>
Init == \E r \in Roots : g = NewGame(ParseFen(r)) /\ key = Scratch(ParseFen(r)) /\ trail = <<>>
DoA == /\ Len(trail) < MaxDepth
       /\ \E m \in Legal(g.cur) : g' = Do(g, m) /\ key' = DoKey(key, g.cur, m) /\ trail' = Append(trail, <<"move", m>>)
NullA == /\ Len(trail) < MaxDepth /\ ~InCheck(g.cur) /\ (IF trail = <<>> THEN TRUE ELSE trail[Len(trail)][1] # "null")
         /\ g' = DoNull(g) /\ key' = DoNullKey(key) /\ trail' = Append(trail, <<"null", 0>>)
UndoA == /\ trail # <<>>
         /\ LET top == trail[Len(trail)]  prev == g.stack[Len(g.stack)].cur IN
            /\ key' = (IF top[1] = "null" THEN UndoNullKey(key, prev) ELSE UndoKey(key, prev, top[2]))
            /\ g' = Undo(g) /\ trail' = SubSeq(trail, 1, Len(trail) - 1)
Next == DoA \/ NullA \/ UndoA
\* the invariants of C04 / C03 at design level
IncrementalEqualsScratch == key = Scratch(g.cur)
KeyDeterminesNothingElse == FullKey(key) = FullKey(Scratch(g.cur))
UndoRestores == \A i \in 1..Len(g.stack) : g.stack[i].pastLen <= Len(g.past)
SaneAlways == SanePosition(g.cur) \/ g.nulls > 0
=============================================================================
