// Verification harness entry point: vh <command> [--options]
#include "common.h"

namespace vh
{
int cmd_games(const Args&);
int cmd_trees(const Args&);
int cmd_replay_legal(const Args&);
int cmd_uci_replay(const Args&);
int cmd_search_preserves(const Args&);
int cmd_transpose(const Args&);
int cmd_encode_table(const Args&);
int cmd_attack_table(const Args&);
int cmd_kpk_table(const Args&);
int cmd_hashtable_replay(const Args&);
int cmd_order_replay(const Args&);
int cmd_score_table(const Args&);
int cmd_nearmate_pool(const Args&);
int cmd_scripted_engine(const Args&);
int cmd_referee_games(const Args&);
int cmd_polyglot_replay(const Args&);
int cmd_polyglot_walk(const Args&);
int cmd_book_replay(const Args&);
int cmd_time_replay(const Args&);
int cmd_eval_mirror(const Args&);
int cmd_eval_pure(const Args&);
int cmd_eval_cache_replay(const Args&);
int cmd_search_runs(const Args&);
int cmd_schedules(const Args&);
int cmd_pool(const Args&);
int cmd_pool_hist(const Args&);
int cmd_long_game(const Args&);
int cmd_uci_session(const Args&);
}

#ifdef VH_EXTRA_DECLS
VH_EXTRA_DECLS
#endif

int vh_dispatch_extra(const std::string& cmd, const vh::Args& a);

int main(int argc, char** argv)
{
    if (argc < 2) { fprintf(stderr, "usage: vh <command> [--opt value]...\n"); return 2; }
    std::string cmd = argv[1];
    vh::Args a(argc, argv, 2);
    if (cmd == "games") return vh::cmd_games(a);
    if (cmd == "trees") return vh::cmd_trees(a);
    if (cmd == "replay-legal") return vh::cmd_replay_legal(a);
    if (cmd == "uci-replay") return vh::cmd_uci_replay(a);
    if (cmd == "search-preserves") return vh::cmd_search_preserves(a);
    if (cmd == "transpose") return vh::cmd_transpose(a);
    if (cmd == "encode-table") return vh::cmd_encode_table(a);
    if (cmd == "attack-table") return vh::cmd_attack_table(a);
    if (cmd == "kpk-table") return vh::cmd_kpk_table(a);
    if (cmd == "hashtable-replay") return vh::cmd_hashtable_replay(a);
    if (cmd == "order-replay") return vh::cmd_order_replay(a);
    if (cmd == "score-table") return vh::cmd_score_table(a);
    if (cmd == "nearmate-pool") return vh::cmd_nearmate_pool(a);
    if (cmd == "scripted-engine") return vh::cmd_scripted_engine(a);
    if (cmd == "referee-games") return vh::cmd_referee_games(a);
    if (cmd == "polyglot-replay") return vh::cmd_polyglot_replay(a);
    if (cmd == "polyglot-walk") return vh::cmd_polyglot_walk(a);
    if (cmd == "book-replay") return vh::cmd_book_replay(a);
    if (cmd == "time-replay") return vh::cmd_time_replay(a);
    if (cmd == "eval-mirror") return vh::cmd_eval_mirror(a);
    if (cmd == "eval-pure") return vh::cmd_eval_pure(a);
    if (cmd == "eval-cache-replay") return vh::cmd_eval_cache_replay(a);
    if (cmd == "search-runs") return vh::cmd_search_runs(a);
    if (cmd == "schedules") return vh::cmd_schedules(a);
    if (cmd == "pool") return vh::cmd_pool(a);
    if (cmd == "pool-hist") return vh::cmd_pool_hist(a);
    if (cmd == "long-game") return vh::cmd_long_game(a);
    if (cmd == "uci-session") return vh::cmd_uci_session(a);
    return vh_dispatch_extra(cmd, a);
}
