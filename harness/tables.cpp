// Table replays (spec -> code): attack / line tables (C11), KPK truth table (C12).
#include "common.h"

namespace vh
{
static Bitboard bb_of(const std::string& s)
{
    Bitboard b = 0;
    const char* p = s.c_str();
    while (*p)
    {
        if (*p >= '0' && *p <= '9')
        {
            char* e;
            long v = strtol(p, &e, 10);
            b |= 1ULL << v;
            p = e;
        }
        else ++p;
    }
    return b;
}
static std::string sq_list(Bitboard b)
{
    std::string s = "[";
    bool first = true;
    for (int i = 0; i < 64; ++i)
        if (b & (1ULL << i)) { s += (first ? "" : ",") + std::to_string(i); first = false; }
    return s + "]";
}

// rows as printed by Attacks.tla
int cmd_attack_table(const Args& a)
{
    init_engine();
    std::ifstream in(a.s("in"));
    FILE* out = fopen(a.s("out", "/dev/stdout").c_str(), "w");
    std::mt19937_64 rng(a.i("seed", 1));
    const int noise_rounds = (int)a.i("noise", 2);
    std::string line;
    long rows = 0, slider_rows = 0, evals = 0, bad = 0;
    Bitboard empty_att[2][64];
    bool have_empty[2][64];
    memset(have_empty, 0, sizeof have_empty);
    auto report = [&](const std::string& what, const std::string& row, Bitboard want, Bitboard got, Bitboard occ) {
        bad++;
        if (bad <= 200)
            fprintf(out, "{\"prop\":\"C11\",\"kind\":%s,\"row\":%s,\"detail\":{\"occ\":%s,\"spec\":%s,\"engine\":%s}}\n", jstr(what).c_str(), jstr(row).c_str(),
                    sq_list(occ).c_str(), sq_list(want).c_str(), sq_list(got).c_str());
    };
    while (std::getline(in, line))
    {
        if (line.size() < 3) continue;
        rows++;
        char t = line[0];
        size_t bar1 = line.find('|');
        std::string head = line.substr(2, bar1 - 2);
        std::string rest = line.substr(bar1 + 1);
        if (t == 'S')
        {
            slider_rows++;
            char kind = head[0];
            int sq = atoi(head.c_str() + 2);
            size_t bar2 = rest.find('|');
            Bitboard occ = bb_of(rest.substr(0, bar2)), want = bb_of(rest.substr(bar2 + 1));
            int ki = kind == 'B' ? 0 : 1;
            if (occ == 0) { empty_att[ki][sq] = want; have_empty[ki][sq] = true; }
            auto att = [&](Bitboard o) { return kind == 'B' ? slider_attack<BISHOP>(Square(sq), o) : slider_attack<ROOK>(Square(sq), o); };
            Bitboard got = att(occ);
            evals++;
            if (got != want) report("slider_attack", line, want, got, occ);
            // the same blockers plus arbitrary pieces on squares off the slider's rays (and on its own square)
            if (have_empty[ki][sq])
                for (int r = 0; r < noise_rounds; ++r)
                {
                    Bitboard noise = (rng() & rng()) & ~empty_att[ki][sq];
                    if (r == 0) noise = ~empty_att[ki][sq];
                    Bitboard o2 = occ | noise;
                    Bitboard g2 = att(o2);
                    evals++;
                    if (g2 != want) report("slider_attack_full_occupancy", line, want, g2, o2);
                    Bitboard q = slider_attack<QUEEN>(Square(sq), o2);
                    if (q != (slider_attack<BISHOP>(Square(sq), o2) | slider_attack<ROOK>(Square(sq), o2))) report("queen_is_bishop_or_rook", line, 0, q, o2);
                }
        }
        else
        {
            Bitboard want = bb_of(rest);
            Bitboard got = 0;
            int x = 0, y = 0;
            sscanf(head.c_str(), "%d %d", &x, &y);
            std::string what;
            switch (t)
            {
            case 'N': got = KNIGHT_MASK[x]; what = "KNIGHT_MASK"; break;
            case 'K': got = KING_MASK[x]; what = "KING_MASK"; break;
            case 'P':
            {
                got = pawn_attacks(square_bb(Square(y)), Color(x));
                what = "pawn_attacks";
                Bitboard g2 = x == 0 ? pawn_attacks<WHITE>(square_bb(Square(y))) : pawn_attacks<BLACK>(square_bb(Square(y)));
                if (g2 != want) report("pawn_attacks<>", line, want, g2, 0);
                break;
            }
            case 'L': got = LINES[x][y]; what = "LINES"; break;
            case 'F': got = FULL_LINES[x][y]; what = "FULL_LINES"; break;
            case 'Y': got = RAYS[x][y]; what = "RAYS"; break;
            case 'C': got = CASTLING_PATHS[x]; what = "CASTLING_PATHS"; break;
            case 'Q': got = QUEEN_CASTLING_BLOCK[x]; what = "QUEEN_CASTLING_BLOCK"; break;
            default: continue;
            }
            evals++;
            if (got != want) report(what, line, want, got, 0);
            if (t == 'K')
            {
                Bitboard g2 = king_attacks(square_bb(Square(x)));
                if (g2 != want) report("king_attacks", line, want, g2, 0);
            }
            if (t == 'Y')
            {
                // pseudo attacks on the empty board are unions of rays; checked through the ray rows
            }
        }
    }
    fprintf(out, "{\"summary\":true,\"rows\":%ld,\"slider_rows\":%ld,\"evaluations\":%ld,\"mismatches\":%ld}\n", rows, slider_rows, evals, bad);
    fclose(out);
    return 0;
}

// ---------------------------------------------------------------- C12
// input: rows "W <idx>" / "D <idx>" for every legal white-pawn KPK position, idx = ((stm*64+wk)*64+wp)*64+bk,
// W = the pawn's side wins with best play (least fix-point computed by TLC from KPK.tla), D = draw.
// For each position the engine is asked three ways: bitbase (through normalize), endgame::score classification
// for the white-pawn position and for its colour mirror (black pawn).
int cmd_kpk_table(const Args& a)
{
    init_engine();
    std::ifstream in(a.s("in"));
    FILE* out = fopen(a.s("out", "/dev/stdout").c_str(), "w");
    char t;
    long idx, n = 0, bad = 0, wins = 0;
    auto sqname = [](int s) { std::string r; r += char('a' + s % 8); r += char('1' + s / 8); return r; };
    auto fen_of = [&](int stm, int wk, int wp, int bk, bool mirror) {
        char b[64];
        memset(b, 0, sizeof b);
        auto put = [&](int s, char c) { int q = mirror ? (s % 8) + 8 * (7 - s / 8) : s; b[q] = mirror ? (isupper(c) ? tolower(c) : toupper(c)) : c; };
        put(wk, 'K'); put(wp, 'P'); put(bk, 'k');
        std::string f;
        for (int r = 7; r >= 0; --r)
        {
            int e = 0;
            for (int c = 0; c < 8; ++c)
            {
                char ch = b[r * 8 + c];
                if (!ch) e++;
                else { if (e) f += char('0' + e); e = 0; f += ch; }
            }
            if (e) f += char('0' + e);
            if (r) f += '/';
        }
        int side = mirror ? 1 - stm : stm;
        return f + (side == 0 ? " w" : " b") + " - - 0 1";
    };
    while (in >> t >> idx)
    {
        int stm = int(idx / 262144), wk = int((idx / 4096) % 64), wp = int((idx / 64) % 64), bk = int(idx % 64);
        bool win = t == 'W';
        n++;
        wins += win;
        for (int mirror = 0; mirror < 2; ++mirror)
        {
            std::string fen = fen_of(stm, wk, wp, bk, mirror);
            Position p(fen);
            // 1. the bitbase through the public normalisation
            Color strong = mirror ? BLACK : WHITE;
            Color side = p.color();
            Square sk = p.piece_position(make_piece(strong, KING)), sp = p.piece_position(make_piece(strong, PAWN)),
                   wkk = p.piece_position(make_piece(!strong, KING));
            bitbase::normalize(strong, side, sk, sp, wkk);
            bool bb = bitbase::check(side, sk, sp, wkk);
            // 2. the classification the evaluator uses
            Value v = endgame::score(p);
            Value strong_v = p.color() == strong ? v : -v;
            bool cls = strong_v >= VALUE_KNOWN_WIN;
            bool drawband = strong_v >= 0 && strong_v < VALUE_KNOWN_WIN / 2;
            if (bb != win || cls != win || (!win && !drawband))
            {
                bad++;
                if (bad <= 300)
                    fprintf(out, "{\"prop\":\"C12\",\"kind\":\"%s\",\"fen\":%s,\"detail\":{\"truth\":\"%s\",\"bitbase\":%s,\"classified_win\":%s,\"score_for_pawn_side\":%ld,\"pawn_colour\":\"%s\",\"wk\":\"%s\",\"wp\":\"%s\",\"bk\":\"%s\",\"stm\":%d}}\n",
                            win ? "win_called_draw" : "draw_called_win", jstr(fen).c_str(), win ? "win" : "draw", jbool(bb).c_str(), jbool(cls).c_str(),
                            (long)strong_v, mirror ? "black" : "white", sqname(wk).c_str(), sqname(wp).c_str(), sqname(bk).c_str(), stm);
            }
        }
    }
    fprintf(out, "{\"summary\":true,\"positions\":%ld,\"wins\":%ld,\"engine_queries\":%ld,\"mismatches\":%ld}\n", n, wins, 2 * n, bad);
    fclose(out);
    return 0;
}

}  // namespace vh

// ---------------------------------------------------------------- hash table (hashmap.h) against HashTable.tla
// input lines: {"ops":[["insert",k,v],["probe",k,found,value,epoch],["clear"],["epoch",n],["hashfull",n],...]} : behaviours of the model with
// Size = 4; model key k is mapped to the real key (k mod 4) + 1024 * (k div 4) so that model collisions are real collisions in
// the 1024-slot instantiation of the engine's template
namespace vh
{
int cmd_hashtable_replay(const Args& a)
{
    std::ifstream in(a.s("in"));
    FILE* out = fopen(a.s("out", "/dev/stdout").c_str(), "w");
    std::string line;
    long n = 0, nops = 0, bad = 0;
    auto realkey = [](long k) { return uint64_t((k % 4) + 1024 * (k / 4)); };
    while (std::getline(in, line))
    {
        if (line.find("\"ops\"") == std::string::npos) continue;
        n++;
        engine::HashMap<uint64_t, long, 1024> t;
        // walk the inner arrays
        size_t i = line.find('[');
        i = line.find('[', i + 1);
        while (i != std::string::npos)
        {
            size_t e = line.find(']', i);
            std::string item = line.substr(i, e - i + 1);
            std::vector<std::string> strs = jarr_str(item);
            std::vector<long> nums = jarr_int(item.substr(item.find('"', item.find('"') + 1) + 1));
            if (strs.empty()) break;
            const std::string& op = strs[0];
            nops++;
            if (op == "insert") t.insert(realkey(nums[0]), nums[1]);
            else if (op == "clear") t.clear();
            else if (op == "epoch") t.updateEpoch((uint32_t)nums[0]);
            else if (op == "hashfull")
            {
                if (t.hashfull() != nums[0])
                {
                    bad++;
                    fprintf(out, "{\"prop\":\"X\",\"kind\":\"hashfull\",\"detail\":{\"behaviour\":%s,\"expected\":%ld,\"got\":%d}}\n", jstr(line).c_str(), nums[0], t.hashfull());
                }
            }
            else if (op == "probe")
            {
                bool found = false;
                auto* ent = t.probe(realkey(nums[0]), found);
                bool ok = (found ? 1 : 0) == nums[1] && (!found || (ent->value == nums[2] && (long)ent->epoch == nums[3]));
                if (!ok)
                {
                    bad++;
                    fprintf(out, "{\"prop\":\"X\",\"kind\":\"probe\",\"detail\":{\"behaviour\":%s,\"key\":%ld,\"expected\":[%ld,%ld,%ld],\"got\":[%d,%ld,%u]}}\n", jstr(line).c_str(),
                            nums[0], nums[1], nums[2], nums[3], (int)found, found ? ent->value : 0L, found ? ent->epoch : 0u);
                }
            }
            i = line.find('[', e);
        }
    }
    fprintf(out, "{\"summary\":true,\"behaviours\":%ld,\"operations\":%ld,\"mismatches\":%ld}\n", n, nops, bad);
    fclose(out);
    return 0;
}

// ---------------------------------------------------------------- C08: the score algebra (spec -> code)
// rows printed by ScoreAlgebra.tla:  SCO v mate? kind y up   /   WIN k win_in(k) lost_in(k)
int cmd_score_table(const Args& a)
{
    std::ifstream in(a.s("in"));
    FILE* out = fopen(a.s("out", "/dev/stdout").c_str(), "w");
    std::string tag;
    long n = 0, bad = 0;
    while (in >> tag)
    {
        if (tag == "SCO")
        {
            long v, mate, y, up;
            std::string kind;
            in >> v >> mate >> kind >> y >> up;
            n++;
            std::string txt = score2str(Value(v));
            std::istringstream is(txt);
            std::string ek;
            long ey = 0;
            is >> ek >> ey;
            bool em = is_mate(Value(v));
            bool ok = (em ? 1 : 0) == mate && ek == kind && (kind != "mate" || ey == y);
            if (!ok)
            {
                bad++;
                fprintf(out, "{\"prop\":\"C08\",\"kind\":\"score_algebra\",\"detail\":{\"value\":%ld,\"spec_is_mate\":%ld,\"engine_is_mate\":%d,\"spec\":\"%s %ld\",\"engine\":%s}}\n",
                        v, mate, (int)em, kind.c_str(), y, jstr(txt).c_str());
            }
        }
        else if (tag == "WIN")
        {
            long k, w, l;
            in >> k >> w >> l;
            n++;
            if ((long)win_in((int)k) != w || (long)lost_in((int)k) != l)
            {
                bad++;
                fprintf(out, "{\"prop\":\"C08\",\"kind\":\"score_algebra\",\"detail\":{\"k\":%ld,\"spec\":[%ld,%ld],\"engine\":[%ld,%ld]}}\n", k, w, l, (long)win_in((int)k), (long)lost_in((int)k));
            }
        }
    }
    fprintf(out, "{\"summary\":true,\"rows\":%ld,\"mismatches\":%ld}\n", n, bad);
    fclose(out);
    return 0;
}
}  // namespace vh
