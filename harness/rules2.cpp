// More rules drivers: UCI `position ... moves ...` replay (C02), searches and perft that must
// not alter the position (C03), transposition / revisit builders (C04), packed-word table (C16).
#include "common.h"

namespace vh
{

struct Shards
{
    std::vector<FILE*> f;
    int cur = 0;
    long lines = 0;
    Shards(const std::string& dir, const std::string& stem, int k)
    {
        for (int i = 0; i < k; ++i)
        {
            std::string p = dir + "/" + stem + "." + std::to_string(i) + ".ndjson";
            FILE* h = fopen(p.c_str(), "w");
            if (!h) { perror(p.c_str()); exit(3); }
            f.push_back(h);
        }
    }
    void unit(int i) { cur = i % int(f.size()); }
    void put(const std::string& s) { fputs(s.c_str(), f[cur]); fputc('\n', f[cur]); lines++; }
    ~Shards() { for (auto h : f) fclose(h); }
};

static std::string pos_min(Position& p, bool with_moves)
{
    std::string s = "{\"e\":\"pos\",\"fen\":" + jstr(p.fen());
    if (with_moves)
    {
        MoveVec mv;
        mv.gen(p);
        s += ",\"moves\":" + moves_json(p, mv);
    }
    return s + "}";
}

static std::string pos_keys(Position& p)
{
    MoveVec mv;
    mv.gen(p);
    Position re(p.fen());
    std::string s = "{\"e\":\"pos\",\"fen\":" + jstr(p.fen()) + ",\"moves\":" + moves_json(p, mv);
    s += ",\"key\":" + jstr(hex64(p.hash())) + ",\"pkey\":" + jstr(hex64(p.pawn_hash()));
    s += ",\"key2\":" + jstr(hex64(re.hash())) + ",\"pkey2\":" + jstr(hex64(re.pawn_hash()));
    s += ",\"pl\":" + jstr(piece_list_picture(p)) + ",\"bb\":" + jstr(bitboard_picture(p));
    return s + "}";
}

Uci& the_uci()
{
    static Uci* u = new Uci();   // one per process: owns the 128 MB table and the evaluator
    return *u;
}

// ---------------------------------------------------------------- C02: `position [fen F | startpos] moves ...`
int cmd_uci_replay(const Args& a)
{
    init_engine();
    std::vector<std::string> roots = read_lines(a.s("roots"));
    const int games = (int)a.i("games", 16), maxply = (int)a.i("maxply", 100), shards = (int)a.i("shards", 16);
    std::mt19937_64 rng(a.i("seed", 1));
    Shards out(a.s("out", "."), a.s("stem", "uci"), shards);
    Uci& uci = the_uci();
    for (int g = 0; g < games; ++g)
    {
        out.unit(g);
        std::string root = roots[rng() % roots.size()];
        bool startpos = (rng() % 4 == 0);
        Position p = startpos ? Position() : Position(root);
        std::string rootfen = p.fen();
        std::vector<std::string> ms;
        int len = 1 + int(rng() % uint64_t(maxply));
        for (int ply = 0; ply < len; ++ply)
        {
            MoveVec mv;
            mv.gen(p);
            if (mv.n == 0 || p.half_moves() >= 150) break;
            // prefer special moves now and then so that castling / ep / promotion go through the UCI text path
            Move m = mv.list[rng() % uint64_t(mv.n)];
            if (rng() % 3 == 0)
                for (int i = 0; i < mv.n; ++i)
                    if (castling(mv.list[i]) != NO_CASTLING || promotion(mv.list[i]) != NO_PIECE_KIND ||
                        (make_piece_kind(p.piece_at(from(mv.list[i]))) == PAWN && to(mv.list[i]) == p.enpassant_square()))
                        m = mv.list[i];
            ms.push_back(p.uci(m));
            p.do_move(m);
        }
        // replay through the real command handler, in one command
        std::string cmd = startpos ? "startpos" : ("fen " + rootfen);
        if (!ms.empty()) cmd += " moves";
        for (auto& m : ms) cmd += " " + m;
        std::istringstream is(cmd);
        uci.position_command(is);
        out.put("{\"e\":\"reset\",\"fen\":" + jstr(rootfen) + "}");
        for (auto& m : ms)
        {
            out.put("{\"e\":\"do\",\"m\":" + jstr(m) + "}");
            out.put("{\"e\":\"commit\"}");
        }
        out.put(pos_min(uci.position, true));
        // and incrementally with the `moves` command extension, checking after every few plies
        std::istringstream is2(startpos ? "startpos" : ("fen " + rootfen));
        uci.position_command(is2);
        out.put("{\"e\":\"reset\",\"fen\":" + jstr(rootfen) + "}");
        size_t i = 0;
        while (i < ms.size())
        {
            size_t step = 1 + rng() % 4;
            std::string chunk;
            for (size_t j = i; j < ms.size() && j < i + step; ++j)
            {
                chunk += (chunk.empty() ? "" : " ") + ms[j];
                out.put("{\"e\":\"do\",\"m\":" + jstr(ms[j]) + "}");
                out.put("{\"e\":\"commit\"}");
            }
            std::istringstream is3(chunk);
            uci.moves_command(is3);
            out.put(pos_min(uci.position, false));
            i += step;
        }
    }
    fprintf(stderr, "uci-replay: %d games, %ld lines\n", games, out.lines);
    return 0;
}

// ---------------------------------------------------------------- C03: searches / perft leave the position untouched
// stop injection for aborted searches: the search's own stop() is called at its k-th node visit (any node kind), so the
// search unwinds from wherever it is - below null moves, re-searches, quiescence - and must unmake everything on the way up
static Search* g_abort_target = nullptr;
static long g_abort_at = 0, g_abort_seen = 0;
static void abort_sink(const char* id, int64_t, int64_t)
{
    if ((id[0] == 'n' || id[0] == 'q') && g_abort_target && ++g_abort_seen == g_abort_at) g_abort_target->stop();
}

int cmd_search_preserves(const Args& a)
{
    init_engine();
    std::vector<std::string> roots = read_lines(a.s("roots"));
    const int runs = (int)a.i("runs", 16), shards = (int)a.i("shards", 16);
    std::mt19937_64 rng(a.i("seed", 1));
    Shards out(a.s("out", "."), a.s("stem", "sp"), shards);
    Uci& uci = the_uci();
    static PositionScorer obs_scorer;
    auto full_obs = [&](Position& p) {
        MoveVec mv;
        mv.gen(p);
        Position re(p.fen());
        std::string s = "{\"e\":\"pos\",\"fen\":" + jstr(p.fen()) + ",\"moves\":" + moves_json(p, mv);
        s += ",\"key\":" + jstr(hex64(p.hash())) + ",\"pkey\":" + jstr(hex64(p.pawn_hash()));
        s += ",\"key2\":" + jstr(hex64(re.hash())) + ",\"pkey2\":" + jstr(hex64(re.pawn_hash()));
        s += ",\"pl\":" + jstr(piece_list_picture(p)) + ",\"bb\":" + jstr(bitboard_picture(p));
        s += ",\"hist\":" + std::to_string(p._history_counter);
        s += ",\"rep\":" + jbool(p.is_repeated()) + ",\"rep3\":" + jbool(p.threefold_repetition()) + ",\"r50\":" + jbool(p.rule50()) +
             ",\"mat\":" + jbool(p.enough_material()) + ",\"draw\":" + jbool(p.is_draw()) + ",\"chk\":" + jbool(p.is_in_check(p.color()));
        s += ",\"ev\":" + std::to_string((long)obs_scorer.score(p));
        return s + "}";
    };
    for (int r = 0; r < runs; ++r)
    {
        out.unit(r);
        Position p(roots[rng() % roots.size()]);
        out.put("{\"e\":\"reset\",\"fen\":" + jstr(p.fen()) + "}");
        int pre = int(rng() % 30);
        for (int i = 0; i < pre; ++i)
        {
            MoveVec mv;
            mv.gen(p);
            if (mv.n == 0 || p.is_draw()) break;
            Move m = mv.list[rng() % uint64_t(mv.n)];
            out.put("{\"e\":\"do\",\"m\":" + jstr(p.uci(m)) + "}");
            p.do_move(m);
            out.put("{\"e\":\"commit\"}");
        }
        MoveVec mv;
        mv.gen(p);
        if (mv.n == 0) continue;
        // the monitor compares an observation taken after an undo with the one before the matching do:
        // wrap the search / perft in a do(first move) .. undo pair of the *log* whose inner work is the search itself
        out.put(full_obs(p));
        // 1. a real search on a Search object; its private copy of the position is observed afterwards
        Limits lim;
        lim.depth = 1 + int(rng() % 4);
        std::ostringstream cap;
        auto* old = std::cout.rdbuf(cap.rdbuf());
        uci.ttable.updateEpoch(1);
        // aborted searches (every other run): a deep limit, stopped at a drawn node visit, or a node budget
        const bool aborted = a.i("aborted", 1) != 0 && r % 2 == 1;
        if (aborted)
        {
            lim.depth = 7 + int(rng() % 6);
            if (rng() % 4 == 0) lim.nodes = 20000 + int(rng() % 200000);
        }
        {
            Search s(p, lim, uci.scorer, uci.ttable);
            if (aborted && lim.nodes == 0)   // (a node budget is polled by the search itself)
            {
                g_abort_target = &s;
                g_abort_seen = 0;
                g_abort_at = 200 + long(rng() % 120000);
                engine::verif::sink.store(abort_sink);
            }
            s.go();
            engine::verif::sink.store(nullptr);
            g_abort_target = nullptr;
            std::cout.rdbuf(old);
            // the move announced must be a move of the searched position, spelled for its side (castling is spelled from the side to move)
            {
                std::string outp = cap.str(), bm;
                size_t at = outp.rfind("bestmove ");
                if (at != std::string::npos) { std::istringstream bs(outp.substr(at + 9)); bs >> bm; }
                bool legal = false;
                for (int i = 0; i < mv.n; ++i) legal = legal || p.uci(mv.list[i]) == bm;
                out.put("{\"e\":\"searched\",\"aborted\":" + jbool(aborted && g_abort_seen >= g_abort_at) + ",\"bestmove\":" + jstr(bm) + ",\"legal\":" + jbool(legal) + "}");
            }
            out.put("{\"e\":\"donull\"}");   // bracket: the search is "make something .. unmake everything"
            out.put("{\"e\":\"undonull\"}");
            out.put(full_obs(s._position));
        }
        // 2. perft through the UCI command on the session position
        std::istringstream is("fen " + p.fen());
        uci.position_command(is);
        // position_command starts a new history; observe, perft, observe
        out.put("{\"e\":\"reset\",\"fen\":" + jstr(uci.position.fen()) + "}");
        out.put(full_obs(uci.position));
        std::ostringstream cap2;
        old = std::cout.rdbuf(cap2.rdbuf());
        std::istringstream pd(std::to_string(1 + int(rng() % 3)));
        uci.perft_command(pd);
        std::cout.rdbuf(old);
        out.put("{\"e\":\"donull\"}");
        out.put("{\"e\":\"undonull\"}");
        out.put(full_obs(uci.position));
    }
    fprintf(stderr, "search-preserves: %d runs, %ld lines\n", runs, out.lines);
    return 0;
}

// ---------------------------------------------------------------- C04: revisits by different paths
// Each unit: play a prefix, then reach the same position by (a) two commuting move orders, (b) out-and-back
// manoeuvres, (c) reloading the FEN, (d) make/unmake with null moves; every position is observed with its keys.
int cmd_transpose(const Args& a)
{
    init_engine();
    std::vector<std::string> roots = read_lines(a.s("roots"));
    const int units = (int)a.i("units", 16), shards = (int)a.i("shards", 16);
    std::mt19937_64 rng(a.i("seed", 1));
    Shards out(a.s("out", "."), a.s("stem", "tr"), shards);
    long revisits = 0;
    auto do_log = [&](Position& p, Move m) {
        out.put("{\"e\":\"do\",\"m\":" + jstr(p.uci(m)) + "}");
        MoveInfo mi = p.do_move(m);
        out.put(pos_keys(p));
        return mi;
    };
    auto undo_log = [&](Position& p, Move m, MoveInfo mi) {
        p.undo_move(m, mi);
        out.put("{\"e\":\"undo\"}");
        out.put(pos_keys(p));
    };
    auto has = [&](Position& p, Move m) {
        MoveVec mv;
        mv.gen(p);
        for (int i = 0; i < mv.n; ++i) if (mv.list[i] == m) return true;
        return false;
    };
    for (int u = 0; u < units; ++u)
    {
        out.unit(u);
        Position p(roots[rng() % roots.size()]);
        out.put("{\"e\":\"reset\",\"fen\":" + jstr(p.fen()) + "}");
        int pre = int(rng() % 40);
        for (int i = 0; i < pre; ++i)
        {
            MoveVec mv;
            mv.gen(p);
            if (mv.n == 0 || p.half_moves() >= 100) break;
            Move m = mv.list[rng() % uint64_t(mv.n)];
            out.put("{\"e\":\"do\",\"m\":" + jstr(p.uci(m)) + "}");
            p.do_move(m);
            out.put("{\"e\":\"commit\"}");
        }
        out.put(pos_keys(p));
        MoveVec mv;
        mv.gen(p);
        if (mv.n == 0) continue;
        // (a) commuting pairs: a1, b1, a2, b2  vs  a2', ... : try A,x,B,y then undo all and B',x,A',y where A,B are
        //     two quiet moves of the side to move by different pieces and x,y two quiet replies by different pieces
        for (int attempt = 0; attempt < 6; ++attempt)
        {
            Move A = mv.list[rng() % uint64_t(mv.n)], B = mv.list[rng() % uint64_t(mv.n)];
            if (A == B || castling(A) != NO_CASTLING || castling(B) != NO_CASTLING) continue;
            if (from(A) == from(B) || to(A) == to(B) || to(A) == from(B) || to(B) == from(A)) continue;
            MoveInfo i1 = do_log(p, A);
            MoveVec r1;
            r1.gen(p);
            if (r1.n < 2) { undo_log(p, A, i1); continue; }
            Move x = r1.list[rng() % uint64_t(r1.n)], y = r1.list[rng() % uint64_t(r1.n)];
            if (x == y || castling(x) != NO_CASTLING || castling(y) != NO_CASTLING || from(x) == from(y) || to(x) == to(y) ||
                to(x) == from(y) || to(y) == from(x))
            { undo_log(p, A, i1); continue; }
            MoveInfo i2 = do_log(p, x);
            if (!has(p, B)) { undo_log(p, x, i2); undo_log(p, A, i1); continue; }
            MoveInfo i3 = do_log(p, B);
            if (!has(p, y)) { undo_log(p, B, i3); undo_log(p, x, i2); undo_log(p, A, i1); continue; }
            MoveInfo i4 = do_log(p, y);
            undo_log(p, y, i4); undo_log(p, B, i3); undo_log(p, x, i2); undo_log(p, A, i1);
            // other order: B, y, A, x  (legal only if the moves really commute; otherwise stop where it stops)
            if (!has(p, B)) continue;
            MoveInfo j1 = do_log(p, B);
            if (has(p, y))
            {
                MoveInfo j2 = do_log(p, y);
                if (has(p, A))
                {
                    MoveInfo j3 = do_log(p, A);
                    if (has(p, x))
                    {
                        MoveInfo j4 = do_log(p, x);   // same placement reached by the other order (identity may differ in ep/rights)
                        revisits++;
                        undo_log(p, x, j4);
                    }
                    undo_log(p, A, j3);
                }
                undo_log(p, y, j2);
            }
            undo_log(p, B, j1);
        }
        // (b) out-and-back: N out, n out, N back, n back  -> the position repeats (keys must be the earlier key)
        for (int attempt = 0; attempt < 4; ++attempt)
        {
            MoveVec m1;
            m1.gen(p);
            if (m1.n == 0) break;
            Move A = m1.list[rng() % uint64_t(m1.n)];
            if (castling(A) != NO_CASTLING || promotion(A) != NO_PIECE_KIND || p.piece_at(to(A)) != NO_PIECE ||
                make_piece_kind(p.piece_at(from(A))) == PAWN)
                continue;
            MoveInfo i1 = do_log(p, A);
            MoveVec m2;
            m2.gen(p);
            Move x = NO_MOVE;
            for (int t = 0; t < 8 && m2.n > 0; ++t)
            {
                Move c = m2.list[rng() % uint64_t(m2.n)];
                if (castling(c) == NO_CASTLING && promotion(c) == NO_PIECE_KIND && p.piece_at(to(c)) == NO_PIECE &&
                    make_piece_kind(p.piece_at(from(c))) != PAWN)
                { x = c; break; }
            }
            if (x == NO_MOVE) { undo_log(p, A, i1); continue; }
            MoveInfo i2 = do_log(p, x);
            Move Ab = create_move(to(A), from(A)), xb = create_move(to(x), from(x));
            if (has(p, Ab))
            {
                MoveInfo i3 = do_log(p, Ab);
                if (has(p, xb))
                {
                    MoveInfo i4 = do_log(p, xb);
                    revisits++;
                    undo_log(p, xb, i4);
                }
                undo_log(p, Ab, i3);
            }
            undo_log(p, x, i2);
            undo_log(p, A, i1);
        }
        // (c) reload from FEN: a fresh object for the same position (the clocks may differ: identity excludes them)
        {
            std::string f = p.fen();
            Position q(f);
            out.put("{\"e\":\"reset\",\"fen\":" + jstr(q.fen()) + "}");
            out.put(pos_keys(q));
            // and the same placement with different clocks
            size_t sp = 0;
            for (int i = 0; i < 4; ++i) sp = f.find(' ', sp + 1);
            Position q2(f.substr(0, sp) + " 0 1");
            out.put("{\"e\":\"reset\",\"fen\":" + jstr(q2.fen()) + "}");
            out.put(pos_keys(q2));
            revisits += 2;
        }
    }
    fprintf(stderr, "transpose: %d units, %ld planned revisits, %ld lines\n", units, revisits, out.lines);
    return 0;
}

// ---------------------------------------------------------------- C16: packed move word, exhaustive
// input rows: "f t pk cs word" computed by the specification (Encode); the engine must build the same
// fields back: create_move / create_promotion / create_castling and from / to / promotion / castling.
int cmd_encode_table(const Args& a)
{
    std::ifstream in(a.s("in"));
    FILE* out = fopen(a.s("out", "/dev/stdout").c_str(), "w");
    long f, t, pk, cs, w, n = 0, bad = 0;
    while (in >> f >> t >> pk >> cs >> w)
    {
        n++;
        Move m;
        if (cs != 0) m = create_castling(cs == 1 ? KING_CASTLING : QUEEN_CASTLING);
        else if (pk != 0) m = create_promotion(Square(f), Square(t), PieceKind(pk));
        else m = create_move(Square(f), Square(t));
        int ecs = castling(m) == NO_CASTLING ? 0 : (castling(m) == KING_CASTLING ? 1 : 2);
        bool ok = (long)m == w && ecs == cs;
        if (cs == 0) ok = ok && (long)from(m) == f && (long)to(m) == t && (long)promotion(m) == pk;
        if (!ok)
        {
            bad++;
            fprintf(out, "{\"prop\":\"C16\",\"kind\":\"encoding_table\",\"detail\":{\"from\":%ld,\"to\":%ld,\"promo\":%ld,\"castle\":%ld,\"spec_word\":%ld,"
                         "\"engine_word\":%ld,\"engine_fields\":[%d,%d,%d,%d]}}\n",
                    f, t, pk, cs, w, (long)m, (int)from(m), (int)to(m), (int)promotion(m), ecs);
        }
    }
    fprintf(out, "{\"summary\":true,\"words\":%ld,\"mismatches\":%ld}\n", n, bad);
    fclose(out);
    return 0;
}

}  // namespace vh
