// Search drivers.
//  Mode A (in-process, one thread): Search::go() with std::cout captured; the hook sink counts node
//          visits and can deliver `stop` at an exact hook point ("the reader's write lands here in the
//          interleaving"), so early-stop placements are replayed deterministically.
//  Mode B (real threads): the real Uci::loop in a reader thread with std::cin / std::cout replaced, the
//          real detached search thread, and a scheduler sink that parks the search thread at a label
//          while the reader's commands are delivered (schedule replay for C06).
#include "common.h"

namespace vh
{
Uci& the_uci();

// ---------------------------------------------------------------- hook sink (mode A)
struct AbortRun {};   // thrown from the sink to leave a search that ignores every stop

struct SinkA
{
    std::map<std::string, long> seen;
    std::string stop_id;      // deliver stop at the stop_n-th occurrence of this hook id ("" = never)
    long stop_n = 0;
    Search* target = nullptr;
    bool stop_delivered = false, lost_stop = false, forced = false;
    long visits = 0, visits_after_stop = 0, unwind_bound = 10000, visit_cap = 3000000;
    long max_depth_index = 0, max_ply = -1, search_depth_seen = 0, iters_started_after_stop = 0;
    long limits_fired = 0;
    bool aborted = false;
    void reset() { *this = SinkA(); }
};
static SinkA SA;

// watchdog of the in-process runs: every hook event is activity; a search that neither visits nodes nor returns (it waits, sleeps or
// spins outside the hooked code) is first told to stop - the run then counts as "did not end on its own" - and, if even that does
// not bring it back, the harness leaves with a run marker so that the runner can attribute the hang to this run and go on
static std::atomic<long> g_activity{0};
static std::atomic<bool> g_run_active{false}, g_watchdog_forced{false};
static void start_watchdog_once()
{
    static bool started = false;
    if (started) return;
    started = true;
    std::thread([] {
        long last = -1;
        auto since = std::chrono::steady_clock::now();
        bool told = false;
        for (;;)
        {
            std::this_thread::sleep_for(std::chrono::milliseconds(100));
            if (!g_run_active.load()) { last = -1; told = false; since = std::chrono::steady_clock::now(); continue; }
            long cur = g_activity.load();
            auto now = std::chrono::steady_clock::now();
            if (cur != last) { last = cur; since = now; told = false; continue; }
            long idle_ms = std::chrono::duration_cast<std::chrono::milliseconds>(now - since).count();
            if (idle_ms > 6000 && !told)
            {
                told = true;
                g_watchdog_forced.store(true);
                if (SA.target) SA.target->stop();
            }
            if (idle_ms > 16000)
            {
                fprintf(stderr, "RUN-HUNG no activity for %ld ms, not even after stop\n", idle_ms);
                _exit(9);
            }
        }
    }).detach();
}

static void sink_a(const char* id, int64_t a, int64_t b)
{
    if (id[0] == 'w' || id[0] == 'e' || (id[0] == 'q' && id[1] == 'e')) return;   // window / exit / qexit: search-tree points (harness/tree.cpp)
    if (!strcmp(id, "stop_call")) { ++SA.seen[id]; return; }     // (a stop call is not progress of the search: the watchdog's own stop comes through here)
    g_activity.fetch_add(1, std::memory_order_relaxed);
    long n = ++SA.seen[id];
    if (!strcmp(id, "node") || !strcmp(id, "qnode"))
    {
        SA.visits++;
        if (a > SA.max_ply) SA.max_ply = a;
        if (SA.stop_delivered)
        {
            SA.visits_after_stop++;
            if (SA.visits_after_stop > SA.unwind_bound && !SA.lost_stop)
            {
                SA.lost_stop = true;          // the stop was not honoured: end the run with a second stop
                if (SA.target) SA.target->stop();
            }
            if (SA.visits_after_stop > 20 * SA.unwind_bound)
            {
                SA.aborted = true;            // not even the second stop is honoured: leave the search by unwinding
                throw AbortRun();
            }
        }
        if (SA.visits > SA.visit_cap && !SA.forced)
        {
            SA.forced = true;                 // the run does not end on its own within the cap
            SA.stop_delivered = true;
            if (SA.target) SA.target->stop();
        }
    }
    if (!strcmp(id, "iter_start"))
    {
        if (a > SA.max_depth_index) SA.max_depth_index = a;
        SA.search_depth_seen = b;
        if (SA.stop_delivered && !SA.lost_stop) SA.iters_started_after_stop++;
    }
    if (!strcmp(id, "limits")) SA.limits_fired++;
    if (!SA.stop_id.empty() && SA.stop_id == id && n == SA.stop_n && !SA.stop_delivered)
    {
        SA.stop_delivered = true;
        if (SA.target) SA.target->stop();
    }
}

struct RunSpec
{
    std::string fen;
    std::vector<std::string> moves;        // played from fen before the search (history for repetition)
    std::string limits;                    // UCI go arguments, e.g. "depth 3" or "wtime 1 btime 1"
    std::vector<std::string> searchmoves;
    std::string tt = "warm";               // fresh | warm | poison
    std::string stop_id;
    long stop_n = 0;
    std::string tag;
};

static Limits parse_limits(Position& p, const std::string& s, const std::vector<std::string>& sm)
{
    Limits limits;
    std::istringstream is(s);
    std::string token;
    while (is >> token)
    {
        if (token == "wtime") is >> limits.timeleft[WHITE];
        else if (token == "btime") is >> limits.timeleft[BLACK];
        else if (token == "winc") is >> limits.timeinc[WHITE];
        else if (token == "binc") is >> limits.timeinc[BLACK];
        else if (token == "movestogo") is >> limits.movestogo;
        else if (token == "depth") is >> limits.depth;
        else if (token == "nodes") is >> limits.nodes;
        else if (token == "movetime") is >> limits.movetime;
        else if (token == "infinite") limits.infinite = true;
    }
    for (auto& m : sm) limits.searchmoves[limits.searchmovesnum++] = p.parse_uci(m);
    return limits;
}

// poison the table: entries under the keys of the root and of positions one and two plies below it
static int poison(tt::TTable& tt, Position& root, std::mt19937_64& rng, std::string* desc)
{
    std::vector<uint64_t> keys{root.hash()};
    MoveVec mv;
    mv.gen(root);
    for (int i = 0; i < mv.n && i < 40; ++i)
    {
        MoveInfo mi = root.do_move(mv.list[i]);
        keys.push_back(root.hash());
        MoveVec m2;
        m2.gen(root);
        for (int j = 0; j < m2.n && j < 3; ++j)
        {
            MoveInfo mj = root.do_move(m2.list[j]);
            keys.push_back(root.hash());
            root.undo_move(m2.list[j], mj);
        }
        root.undo_move(mv.list[i], mi);
    }
    const int64_t scores[] = {0, 37, -4000, 250000, -250000, VALUE_KNOWN_WIN + 5, VALUE_MATE - 1, -(VALUE_MATE - 1), VALUE_MATE - 30, -(VALUE_MATE - 7), VALUE_INFINITE, -VALUE_INFINITE};
    const tt::Flag flags[] = {tt::Flag::kEXACT, tt::Flag::kLOWER_BOUND, tt::Flag::kUPPER_BOUND};
    int n = 0;
    int style = int(rng() % 5);
    for (uint64_t k : keys)
    {
        Move m;
        switch ((style + n) % 6)
        {
        case 0: m = NO_MOVE; break;                                               // a1a1
        case 1: m = create_move(Square(rng() % 64), Square(rng() % 64)); break;   // arbitrary, mostly illegal here
        case 2: m = create_castling(rng() % 2 ? KING_CASTLING : QUEEN_CASTLING); break;
        case 3: m = create_promotion(Square(48 + rng() % 8), Square(56 + rng() % 8), QUEEN); break;
        case 4: m = create_move(Square(rng() % 64), Square(rng() % 64)) | (3u << 15); break;   // junk in the castling bits
        default: m = mv.n ? mv.list[rng() % uint64_t(mv.n)] : NO_MOVE; break;     // legal at the root, maybe not below
        }
        tt::TTEntry e(scores[rng() % 12], int32_t(rng() % 2 ? 100 : rng() % 6), flags[rng() % 3], m);
        tt.insert(k, e);
        n++;
    }
    if (desc) *desc = "style " + std::to_string(style) + ", " + std::to_string(n) + " entries";
    return n;
}

static std::string limits_json(const RunSpec& r)
{
    std::string s = "{\"go\":" + jstr(r.limits) + ",\"searchmoves\":[";
    for (size_t i = 0; i < r.searchmoves.size(); ++i) s += (i ? "," : "") + jstr(r.searchmoves[i]);
    s += "],\"tt\":" + jstr(r.tt) + ",\"stop_id\":" + jstr(r.stop_id) + ",\"stop_n\":" + std::to_string(r.stop_n) + ",\"tag\":" + jstr(r.tag) + "}";
    return s;
}

// parse the engine's stdout into info/best events
static void emit_output(FILE* o, const std::string& text, long* n_best, long* n_info)
{
    std::istringstream in(text);
    std::string line;
    while (std::getline(in, line))
    {
        if (line.rfind("info depth", 0) == 0)
        {
            std::istringstream is(line);
            std::string tok, kind;
            long depth = 0, val = 0, nodes = 0;
            std::vector<std::string> pv;
            while (is >> tok)
            {
                if (tok == "depth") is >> depth;
                else if (tok == "score") is >> kind >> val;
                else if (tok == "nodes") is >> nodes;
                else if (tok == "pv") { while (is >> tok) pv.push_back(tok); }
            }
            std::string pvs = "[";
            for (size_t i = 0; i < pv.size(); ++i) pvs += (i ? "," : "") + jstr(pv[i]);
            fprintf(o, "{\"e\":\"info\",\"depth\":%ld,\"kind\":%s,\"val\":%ld,\"nodes\":%ld,\"pv\":%s]}\n", depth, jstr(kind).c_str(), val, nodes, pvs.c_str());
            (*n_info)++;
        }
        else if (line.rfind("bestmove", 0) == 0)
        {
            std::istringstream is(line);
            std::string tok, m;
            is >> tok >> m;
            fprintf(o, "{\"e\":\"best\",\"m\":%s}\n", jstr(m).c_str());
            (*n_best)++;
        }
        else if (!line.empty())
            fprintf(o, "{\"e\":\"other\",\"text\":%s}\n", jstr(line).c_str());
    }
}

static std::string g_last_best, g_last_root;
static tt::TTable& the_tt() { return the_uci().ttable; }
static PositionScorer& the_scorer() { return the_uci().scorer; }

static bool has_mate_in_one(Position& p)
{
    MoveVec mv;
    mv.gen(p);
    for (int i = 0; i < mv.n; ++i)
    {
        MoveInfo mi = p.do_move(mv.list[i]);
        MoveVec r;
        r.gen(p);
        bool mate = r.n == 0 && p.is_in_check(p.color());
        p.undo_move(mv.list[i], mi);
        if (mate) return true;
    }
    return false;
}

// Untrusted exhaustive mate solver over the engine's own move generator (the generator is C01's subject).  It implements the
// definitions of MateOracle.tla (CanMate / Doomed) and is used ONLY for announcements beyond the depth the specification's oracle
// explores in TLC; on every announcement within that depth the monitor cross-checks its verdict against the specification's.
// return: 1 yes, 0 no, -1 node budget exhausted
std::unordered_map<uint64_t, signed char> g_memo;
static inline uint64_t memo_key(const Position& p, int n, int role) { return p.hash() * 0x9E3779B97F4A7C15ULL + uint64_t(n) * 2 + uint64_t(role); }
int solver_doomed(Position& p, int n, long& budget);
int solver_can_mate(Position& p, int n, long& budget)
{
    if (n < 1) return 0;
    uint64_t k = memo_key(p, n, 0);
    auto it = g_memo.find(k);
    if (it != g_memo.end()) return it->second;
    MoveVec mv;
    mv.gen(p);
    bool unknown = false;
    int res = 0;
    for (int i = 0; i < mv.n; ++i)
    {
        if (--budget < 0) return -1;
        MoveInfo mi = p.do_move(mv.list[i]);
        int r;
        if (n == 1) r = p.is_in_check(p.color()) ? solver_doomed(p, 0, budget) : 0;   // only a checking move can mate at once
        else r = solver_doomed(p, n - 1, budget);
        p.undo_move(mv.list[i], mi);
        if (r == 1) { res = 1; break; }
        if (r == -1) unknown = true;
    }
    if (res == 0 && unknown) return -1;
    g_memo[k] = (signed char)res;
    return res;
}
int solver_doomed(Position& p, int n, long& budget)
{
    MoveVec mv;
    mv.gen(p);
    if (mv.n == 0) return p.is_in_check(p.color()) ? 1 : 0;
    if (n < 1) return 0;
    uint64_t k = memo_key(p, n, 1);
    auto it = g_memo.find(k);
    if (it != g_memo.end()) return it->second;
    bool unknown = false;
    int res = 1;
    for (int i = 0; i < mv.n; ++i)
    {
        if (--budget < 0) return -1;
        MoveInfo mi = p.do_move(mv.list[i]);
        int r = solver_can_mate(p, n, budget);
        p.undo_move(mv.list[i], mi);
        if (r == 0) { res = 0; break; }
        if (r == -1) unknown = true;
    }
    if (res == 1 && unknown) return -1;
    g_memo[k] = (signed char)res;
    return res;
}
// verdict on a `score mate y` claim: "true" (mate within n <= |y| moves found), "false" (exhaustively none within |y| moves), "budget"
static std::string solver_verdict(Position root, long y, int* n_found)
{
    long budget = 60000000;
    g_memo.clear();
    long lim = y > 0 ? y : -y;
    if (lim == 0) return "false";
    bool unknown = false;
    for (int n = 1; n <= lim && n <= 6; ++n)
    {
        int r = y > 0 ? solver_can_mate(root, n, budget) : solver_doomed(root, n, budget);
        if (r == 1) { *n_found = n; return "true"; }
        if (r == -1) { unknown = true; break; }
    }
    if (unknown || lim > 6) return "budget";
    return "false";
}

// run one search in-process and log it.  filter: "" = log every run; "mate" = log only runs whose output contains a mate
// score or whose root has a mate in one according to the engine's own generator (a pre-filter for the expensive mate
// oracle of the monitor: every mate announcement is logged, so none can escape), plus every keep_every-th other run
static long g_runs_total = 0, g_runs_logged = 0;
static void run_one(FILE* real_o, const RunSpec& r, std::mt19937_64& rng, const std::string& filter = "", long keep_every = 50)
{
    char* membuf = nullptr;
    size_t memlen = 0;
    FILE* o = open_memstream(&membuf, &memlen);
    Position p(r.fen);
    for (auto& m : r.moves) p.do_move(p.parse_uci(m));
    std::string root = p.fen();
    tt::TTable& tt = the_tt();
    std::string pdesc;
    if (r.tt == "fresh") { tt.clear(); the_scorer().clear(); }
    if (r.tt != "again") tt.updateEpoch(1);     // "again": a second go without a position command in between (same table epoch)
    if (r.tt == "poison") poison(tt, p, rng, &pdesc);
    RunSpec rr = r;
    if (!rr.searchmoves.empty() && rr.searchmoves[0][0] == '@')
    {
        std::string mode = rr.searchmoves[0];
        rr.searchmoves.clear();
        MoveVec all;
        all.gen(p);
        bool same = g_last_root == root && !g_last_best.empty();
        for (int i = 0; i < all.n; ++i)
        {
            std::string u = p.uci(all.list[i]);
            if (mode == "@allbutlast" && (!same || u != g_last_best)) rr.searchmoves.push_back(u);
            if (mode == "@last" && same && u == g_last_best) rr.searchmoves.push_back(u);
            if (mode == "@nonmating")
            {
                // every legal move that does not deliver mate (a restricted search whose root value is not the position's value)
                Position q = p;
                q.do_move(all.list[i]);
                MoveVec rep;
                rep.gen(q);
                if (!(rep.n == 0 && q.is_in_check(q.color()))) rr.searchmoves.push_back(u);
            }
        }
        if (rr.searchmoves.empty() && all.n) rr.searchmoves.push_back(p.uci(all.list[all.n - 1]));
    }
    const RunSpec& r2 = rr;
    Limits lim = parse_limits(p, r2.limits, r2.searchmoves);
    std::string hist = "[";
    for (size_t i = 0; i < r.moves.size(); ++i) hist += (i ? "," : "") + jstr(r.moves[i]);
    hist += "]";
    fprintf(o, "{\"e\":\"go\",\"fen\":%s,\"from\":%s,\"moves\":%s,\"limits\":%s}\n", jstr(root).c_str(), jstr(r.fen).c_str(), hist.c_str(), limits_json(r2).c_str());
    SA.reset();
    SA.stop_id = r.stop_id;
    SA.stop_n = r.stop_n;
    std::ostringstream cap;
    auto* old = std::cout.rdbuf(cap.rdbuf());
    auto t0 = std::chrono::steady_clock::now();
    {
        Search s(p, lim, the_scorer(), tt);
        SA.target = &s;
        if (r.stop_id == "before_thread_start") { SA.stop_delivered = true; s.stop(); }   // stop arrives before the search thread runs at all
        engine::verif::sink.store(sink_a);
        start_watchdog_once();
        g_watchdog_forced.store(false);
        g_activity.fetch_add(1);
        g_run_active.store(true);
        try { s.go(); } catch (const AbortRun&) { }   // hook points lie outside the output lock
        g_run_active.store(false);
        if (g_watchdog_forced.load()) { SA.forced = true; SA.stop_delivered = true; }
        engine::verif::sink.store(nullptr);
        SA.target = nullptr;
    }
    std::cout.rdbuf(old);
    long ms = std::chrono::duration_cast<std::chrono::milliseconds>(std::chrono::steady_clock::now() - t0).count();
    long nb = 0, ni = 0;
    emit_output(o, cap.str(), &nb, &ni);
    {
        size_t q = cap.str().rfind("bestmove ");
        g_last_root = root;
        g_last_best = q == std::string::npos ? "" : cap.str().substr(q + 9, cap.str().find('\n', q) - q - 9);
    }
    std::string solver = "none";
    int solver_n = 0;
    long claim_y = 0;
    if (filter == "mate")
    {
        // the final info line's mate claim, if any
        std::string text = cap.str(), last;
        std::istringstream in2(text);
        std::string ln;
        while (std::getline(in2, ln)) if (ln.rfind("info depth", 0) == 0) last = ln;
        size_t q = last.find("score mate ");
        if (q != std::string::npos)
        {
            claim_y = atol(last.c_str() + q + 11);
            solver = solver_verdict(p, claim_y, &solver_n);
        }
    }
    fprintf(o, "{\"e\":\"solver\",\"verdict\":%s,\"n\":%d,\"y\":%ld}\n", jstr(solver).c_str(), solver_n, claim_y);
    fprintf(o, "{\"e\":\"end\",\"bestcount\":%ld,\"infos\":%ld,\"stop_delivered\":%s,\"visits\":%ld,\"visits_after_stop\":%ld,\"lost_stop\":%s,\"forced\":%s,"
               "\"max_depth_index\":%ld,\"max_ply\":%ld,\"search_depth\":%ld,\"iters_after_stop\":%ld,\"limits_fired\":%ld,\"aborted\":%s,\"ms\":%ld}\n",
            nb, ni, jbool(SA.stop_delivered).c_str(), SA.visits, SA.visits_after_stop, jbool(SA.lost_stop).c_str(), jbool(SA.forced).c_str(),
            SA.max_depth_index, SA.max_ply, SA.search_depth_seen, SA.iters_started_after_stop, SA.limits_fired, jbool(SA.aborted).c_str(), ms);
    fclose(o);
    g_runs_total++;
    bool keep = true;
    if (filter == "mate")
        keep = cap.str().find("score mate") != std::string::npos || (g_runs_total % keep_every) == 0 || has_mate_in_one(p);
    if (keep) { fwrite(membuf, 1, memlen, real_o); g_runs_logged++; }
    free(membuf);
}

// plan file: one run per line, fields separated by '|':
//   fen | moves (space separated) | go arguments | searchmoves (space separated) | tt | stop_id | stop_n | tag
int cmd_search_runs(const Args& a)
{
    init_engine();
    std::vector<std::string> plan = read_lines(a.s("plan"));
    const int shards = (int)a.i("shards", 16);
    std::mt19937_64 rng(a.i("seed", 1));
    std::vector<FILE*> f;
    for (int i = 0; i < shards; ++i) f.push_back(fopen((a.s("out", ".") + "/" + a.s("stem", "sr") + "." + std::to_string(i) + ".ndjson").c_str(), a.has("append") ? "a" : "w"));
    long n = 0;
    const long skip = a.i("skip", 0);
    for (auto& line : plan)
    {
        if (n < skip) { n++; continue; }
        std::vector<std::string> fld;
        std::string cur;
        for (char c : line) { if (c == '|') { fld.push_back(cur); cur = ""; } else cur += c; }
        fld.push_back(cur);
        auto trim = [](std::string s) { while (!s.empty() && s.front() == ' ') s.erase(0, 1); while (!s.empty() && s.back() == ' ') s.pop_back(); return s; };
        auto words = [&](const std::string& s) { std::vector<std::string> v; std::istringstream is(s); std::string w; while (is >> w) v.push_back(w); return v; };
        if (fld.size() < 8) continue;
        RunSpec r;
        r.fen = trim(fld[0]);
        r.moves = words(fld[1]);
        r.limits = trim(fld[2]);
        r.searchmoves = words(fld[3]);
        r.tt = trim(fld[4]);
        r.stop_id = trim(fld[5]);
        r.stop_n = atol(fld[6].c_str());
        r.tag = trim(fld[7]);
        if (a.has("mark")) { fprintf(stderr, "RUN %ld\n", n); fflush(stderr); for (auto h : f) fflush(h); }
        run_one(f[g_runs_logged % shards], r, rng, a.s("filter", ""), a.i("keep-every", 50));
        n++;
    }
    for (auto h : f) fclose(h);
    fprintf(stderr, "search-runs: %ld runs, %ld logged\n", n, g_runs_logged);
    printf("{\"runs\":%ld,\"logged\":%ld}\n", n, g_runs_logged);
    return 0;
}

// ---------------------------------------------------------------- position pool (generator only)
// lines: fen | legal moves | nmoves | incheck | mate1 | source      (positions with at least one legal move, not drawn)
std::string random_material_fen(std::mt19937_64& rng, int kind);
std::string random_attack_fen(std::mt19937_64& rng);
std::string class_fen_by_index(std::mt19937_64& rng, int k);
int cmd_pool(const Args& a)
{
    init_engine();
    std::vector<std::string> roots = read_lines(a.s("roots"));
    const int games = (int)a.i("games", 50), maxply = (int)a.i("maxply", 120), every = (int)a.i("every", 5), sparse = (int)a.i("sparse", 200);
    std::mt19937_64 rng(a.i("seed", 1));
    FILE* o = fopen(a.s("out").c_str(), "w");
    long n = 0;
    auto emit = [&](Position& p, const char* src) {
        MoveVec mv;
        mv.gen(p);
        if (mv.n == 0) return;      // (not filtered by the engine's own draw test: a position it wrongly calls drawn must still be searched)
        std::string ms;
        for (int i = 0; i < mv.n; ++i) ms += (i ? " " : "") + p.uci(mv.list[i]);
        fprintf(o, "%s|%s|%d|%d|%d|%s\n", p.fen().c_str(), ms.c_str(), mv.n, (int)p.is_in_check(p.color()), (int)has_mate_in_one(p), src);
        n++;
    };
    for (auto& r : roots) { Position p(r); emit(p, "root"); }
    for (int g = 0; g < games; ++g)
    {
        Position p(roots[rng() % roots.size()]);
        for (int ply = 0; ply < maxply; ++ply)
        {
            MoveVec mv;
            mv.gen(p);
            if (mv.n == 0 || p.is_draw()) break;
            Move m = mv.list[rng() % uint64_t(mv.n)];
            if (rng() % 2)
                for (int t = 0; t < mv.n; ++t) { Move c = mv.list[rng() % uint64_t(mv.n)]; if (p.move_is_capture(c)) { m = c; break; } }
            p.do_move(m);
            if (ply % every == int(rng() % every)) emit(p, "game");
        }
    }
    for (int k = 0; k < sparse; ++k)
    {
        std::string f = random_material_fen(rng, k);
        if (f.empty()) continue;
        Position p(f);
        emit(p, "sparse");
    }
    // `classes` positions of every material class template, for either colour of the stronger side
    for (long round = 0; round < a.i("classes", 0); ++round)
        for (int k = 0;; ++k)
        {
            std::string f = class_fen_by_index(rng, k);
            if (f == "END") break;
            if (f.empty()) continue;
            Position p(f);
            emit(p, "class");
        }
    for (long k = 0; k < a.i("attack", 0); ++k)
    {
        std::string f = random_attack_fen(rng);
        if (f.empty()) continue;
        Position p(f);
        emit(p, "attack");
    }
    fclose(o);
    fprintf(stderr, "pool: %ld positions\n", n);
    return 0;
}

// positions WITH a game history: lines  rootfen | moves | nmoves(final) | legal moves(final)
// a random game prefix followed, half of the time, by an out-and-back manoeuvre (A, x, A back) so that the side to move can
// re-enter a position of the history (repetition inside the search tree)
int cmd_pool_hist(const Args& a)
{
    init_engine();
    std::vector<std::string> roots = read_lines(a.s("roots"));
    const int n = (int)a.i("n", 100), maxply = (int)a.i("maxply", 30);
    std::mt19937_64 rng(a.i("seed", 1));
    FILE* o = fopen(a.s("out").c_str(), "w");
    long made = 0;
    for (int g = 0; g < 20 * n && made < n; ++g)
    {
        std::string root = roots[rng() % roots.size()];
        Position p(root);
        std::vector<std::string> ms;
        int len = int(rng() % uint64_t(maxply));
        bool ok = true;
        for (int i = 0; i < len && ok; ++i)
        {
            MoveVec mv;
            mv.gen(p);
            if (mv.n == 0 || p.is_draw()) { ok = false; break; }
            Move m = mv.list[rng() % uint64_t(mv.n)];
            ms.push_back(p.uci(m));
            p.do_move(m);
        }
        if (!ok) continue;
        if (rng() % 2)
        {
            // A (quiet piece move), x (quiet reply), A back
            auto quiet = [&](Position& q, Move c) { return castling(c) == NO_CASTLING && promotion(c) == NO_PIECE_KIND && q.piece_at(to(c)) == NO_PIECE &&
                                                          make_piece_kind(q.piece_at(from(c))) != PAWN && make_piece_kind(q.piece_at(from(c))) != KING; };
            MoveVec m1;
            m1.gen(p);
            Move A = NO_MOVE, X = NO_MOVE;
            for (int t = 0; t < 20 && A == NO_MOVE && m1.n; ++t) { Move c = m1.list[rng() % uint64_t(m1.n)]; if (quiet(p, c)) A = c; }
            if (A == NO_MOVE) continue;
            ms.push_back(p.uci(A));
            p.do_move(A);
            MoveVec m2;
            m2.gen(p);
            for (int t = 0; t < 20 && X == NO_MOVE && m2.n; ++t) { Move c = m2.list[rng() % uint64_t(m2.n)]; if (quiet(p, c)) X = c; }
            if (X == NO_MOVE) continue;
            ms.push_back(p.uci(X));
            p.do_move(X);
            Move Ab = create_move(to(A), from(A));
            MoveVec m3;
            m3.gen(p);
            bool has = false;
            for (int i = 0; i < m3.n; ++i) if (m3.list[i] == Ab) has = true;
            if (!has) continue;
            ms.push_back(p.uci(Ab));
            p.do_move(Ab);
        }
        MoveVec mv;
        mv.gen(p);
        if (mv.n == 0 || p.is_draw()) continue;
        std::string mstr, lstr;
        for (auto& m : ms) mstr += (mstr.empty() ? "" : " ") + m;
        for (int i = 0; i < mv.n; ++i) lstr += (i ? " " : "") + p.uci(mv.list[i]);
        fprintf(o, "%s|%s|%d|%s\n", Position(root).fen().c_str(), mstr.c_str(), mv.n, lstr.c_str());
        made++;
    }
    fclose(o);
    fprintf(stderr, "pool-hist: %ld positions with history\n", made);
    return 0;
}

// ---------------------------------------------------------------- mode B: real threads, schedule replay
struct InBuf : std::streambuf
{
    std::mutex m;
    std::condition_variable cv;
    std::deque<std::string> q;
    std::string cur;
    bool closed = false;
    void push(const std::string& line) { { std::lock_guard<std::mutex> l(m); q.push_back(line + "\n"); } cv.notify_all(); }
    void close() { { std::lock_guard<std::mutex> l(m); closed = true; } cv.notify_all(); }
    int underflow() override
    {
        std::unique_lock<std::mutex> l(m);
        cv.wait(l, [&] { return !q.empty() || closed; });
        if (q.empty()) return traits_type::eof();
        cur = q.front();
        q.pop_front();
        setg(&cur[0], &cur[0], &cur[0] + cur.size());
        return traits_type::to_int_type(*gptr());
    }
};
struct OutBuf : std::streambuf
{
    std::mutex m;
    std::condition_variable cv;
    std::string acc;
    std::vector<std::string> lines;
    // one-shot: the thread that completes the next `bestmove` line is held INSIDE the write (the GUI has the line, the thread
    // has not yet run anything that follows its output statement) until release_best()
    bool park_on_best = false, best_parked = false, best_released = false;
    std::condition_variable pcv;
    int overflow(int c) override
    {
        std::unique_lock<std::mutex> l(m);
        if (c == '\n')
        {
            bool hold = park_on_best && acc.rfind("bestmove", 0) == 0;
            lines.push_back(acc);
            acc.clear();
            cv.notify_all();
            if (hold)
            {
                park_on_best = false;
                best_parked = true;
                pcv.notify_all();
                pcv.wait(l, [&] { return best_released; });
                best_parked = false;
            }
        }
        else acc.push_back((char)c);
        return c;
    }
    void arm_best() { std::lock_guard<std::mutex> l(m); park_on_best = true; best_parked = false; best_released = false; }
    bool wait_best_parked(int ms) { std::unique_lock<std::mutex> l(m); return pcv.wait_for(l, std::chrono::milliseconds(ms), [&] { return best_parked; }); }
    void release_best() { { std::lock_guard<std::mutex> l(m); best_released = true; park_on_best = false; } pcv.notify_all(); }
    std::streamsize xsputn(const char* s, std::streamsize n) override
    {
        for (std::streamsize i = 0; i < n; ++i) overflow((unsigned char)s[i]);
        return n;
    }
    bool wait_line(const std::string& prefix, int ms, std::string* out = nullptr)
    {
        std::unique_lock<std::mutex> l(m);
        return cv.wait_for(l, std::chrono::milliseconds(ms), [&] {
            for (auto& s : lines) if (s.rfind(prefix, 0) == 0) { if (out) *out = s; return true; }
            return false;
        });
    }
    int count(const std::string& prefix)
    {
        std::lock_guard<std::mutex> l(m);
        int n = 0;
        for (auto& s : lines) if (s.rfind(prefix, 0) == 0) n++;
        return n;
    }
    std::string text()
    {
        std::lock_guard<std::mutex> l(m);
        std::string t;
        for (auto& s : lines) t += s + "\n";
        return t;
    }
    void clear() { std::lock_guard<std::mutex> l(m); lines.clear(); acc.clear(); }
};

static std::mutex sm;
static std::condition_variable scv;
static std::string park_id;
static long park_count = 0;
static std::map<std::string, long> seenB;
static bool parked = false, released = false, stop_seen = false;
static long visits_after_stopB = -1, visitsB = 0;
static std::thread::id stop_thread, search_thread;

static void sink_b(const char* id, int64_t, int64_t)
{
    if (id[0] == 'w' || id[0] == 'e' || (id[0] == 'q' && id[1] == 'e')) return;   // search-tree points
    std::unique_lock<std::mutex> l(sm);
    long n = ++seenB[id];
    if (!strcmp(id, "stop_call")) { stop_seen = true; visits_after_stopB = 0; stop_thread = std::this_thread::get_id(); scv.notify_all(); return; }
    // a new search thread: a stop_call seen before it belongs to the PREVIOUS search (go_command ends that one before it starts the next)
    if (!strcmp(id, "thread_start")) { search_thread = std::this_thread::get_id(); stop_seen = false; visits_after_stopB = -1; }
    if (!strcmp(id, "node") || !strcmp(id, "qnode")) { visitsB++; if (stop_seen) visits_after_stopB++; }
    if (park_id == id && n == park_count)
    {
        parked = true;
        scv.notify_all();
        scv.wait(l, [] { return released; });
    }
}

// plan: one schedule per line:  fen | go arguments | park_id | park_n | commands while parked (comma separated: isready,stop) | tag
int cmd_schedules(const Args& a)
{
    init_engine();
    std::vector<std::string> plan = read_lines(a.s("plan"));
    FILE* o = fopen((a.s("out", ".") + "/" + a.s("stem", "sched") + ".0.ndjson").c_str(), "w");
    const int wait_ms = (int)a.i("wait-ms", 6000);
    InBuf in;
    OutBuf out;
    auto* oc = std::cout.rdbuf(&out);
    auto* ic = std::cin.rdbuf(&in);
    engine::verif::sink.store(sink_b);
    Uci& uci = the_uci();
    static std::atomic<bool> reader_done{false};
    std::thread reader([&] { uci.loop(); reader_done.store(true); });
    // the data-race half of C06: is the flag the two threads share an atomic object? (compile-time fact of the code under test)
    const bool flag_atomic = !std::is_same_v<decltype(Search::stop_search), bool>;
    long n = 0, lost_total = 0;
    for (auto& line : plan)
    {
        // three schedules whose stop was never answered are verdict enough: a searcher that cannot be brought down blocks the
        // reader of every later schedule as well
        if (lost_total >= 3) break;
        std::vector<std::string> fld;
        std::string cur;
        for (char c : line) { if (c == '|') { fld.push_back(cur); cur = ""; } else cur += c; }
        fld.push_back(cur);
        if (fld.size() < 6) continue;
        auto trim = [](std::string s) { while (!s.empty() && s.front() == ' ') s.erase(0, 1); while (!s.empty() && s.back() == ' ') s.pop_back(); return s; };
        std::string fen = trim(fld[0]), go = trim(fld[1]), pid = trim(fld[2]), cmds = trim(fld[4]), tag = trim(fld[5]);
        long pn = atol(fld[3].c_str());
        { std::lock_guard<std::mutex> l(sm); park_id = ""; park_count = 0; }
        out.clear();
        if (tag.find("+terminal") != std::string::npos)
        {
            // an earlier go of the same session on a finished game (mate / stalemate on the board): whatever it answers, the
            // session goes on and the next search must be as responsive as any other
            static const char* term[] = {"R5k1/5ppp/8/8/8/8/8/6K1 b - - 0 1", "7k/5Q2/6K1/8/8/8/8/8 b - - 0 1"};
            in.push(std::string("position fen ") + term[n % 2]);
            in.push(n % 4 < 2 ? "go depth 2" : "go infinite");
            out.wait_line("bestmove", 3000);
            in.push("stop");
            std::this_thread::sleep_for(std::chrono::milliseconds(50));
            out.clear();
        }
        {
            std::lock_guard<std::mutex> l(sm);
            park_id = pid; park_count = pn; seenB.clear(); parked = false; released = false; stop_seen = false; visits_after_stopB = -1; visitsB = 0;
        }
        out.clear();
        in.push("ucinewgame");
        in.push("position fen " + fen);
        in.push("isready");
        out.wait_line("readyok", 5000);
        out.clear();
        if (pid == "stale_thread")
        {
            // A first search ends by itself; its thread is held right after its bestmove line is out (the GUI has the move).
            // The GUI answers at once with the next go; only then the first thread runs on to its end; then stop.
            // The stop belongs to the SECOND search and must be answered, whatever the leftover of the first thread does.
            out.arm_best();
            in.push("go " + cmds);                                   // field 5: the limits of the first search (ends by itself)
            bool first_parked = out.wait_best_parked(wait_ms);
            long starts0;
            { std::lock_guard<std::mutex> l(sm); starts0 = seenB["thread_start"]; }
            out.clear();
            in.push("go " + go);                                     // field 2: the second search (infinite)
            bool second_started;
            { std::unique_lock<std::mutex> l(sm); second_started = scv.wait_for(l, std::chrono::milliseconds(3000), [&] { return seenB["thread_start"] > starts0; }); }
            out.release_best();
            std::this_thread::sleep_for(std::chrono::milliseconds(pn > 0 ? pn : 100));   // the first thread runs to its end
            in.push("isready");
            bool ready = out.wait_line("readyok", 3000);
            in.push("stop");
            bool stop_delivered;
            { std::unique_lock<std::mutex> l(sm); stop_delivered = scv.wait_for(l, std::chrono::milliseconds(3000), [] { return stop_seen; }); }
            std::string bm;
            bool got = out.wait_line("bestmove", wait_ms, &bm);
            bool lost = !got;
            if (lost) lost_total++;
            if (!got)
            {
                // bring the search down by calling the searcher's stop() directly, then go on
                if (uci.search) uci.search->stop();
                out.wait_line("bestmove", 8000, &bm);
            }
            std::this_thread::sleep_for(std::chrono::milliseconds(20));
            long vas, vis;
            { std::lock_guard<std::mutex> l(sm); vas = visits_after_stopB; vis = visitsB; }
            fprintf(o, "{\"e\":\"go\",\"fen\":%s,\"from\":%s,\"moves\":[],\"limits\":{\"go\":%s,\"searchmoves\":[],\"tt\":\"fresh\",\"stop_id\":%s,\"stop_n\":%ld,\"tag\":%s}}\n",
                    jstr(fen).c_str(), jstr(fen).c_str(), jstr(go).c_str(), jstr(pid).c_str(), pn, jstr(tag).c_str());
            long nb = 0, ni = 0;
            emit_output(o, lost ? std::string() : out.text(), &nb, &ni);
            fprintf(o, "{\"e\":\"end\",\"mode\":\"threads\",\"bestcount\":%ld,\"infos\":%ld,\"parked\":%s,\"stop_sent\":true,\"stop_delivered\":%s,\"ready_while_parked\":%s,"
                       "\"visits\":%ld,\"visits_after_stop\":%ld,\"lost_stop\":%s,\"forced\":false,\"flag_atomic\":%s,\"two_threads\":true,"
                       "\"max_depth_index\":0,\"max_ply\":0,\"search_depth\":0,\"iters_after_stop\":0,\"limits_fired\":0,\"ms\":0}\n",
                    nb, ni, jbool(first_parked && second_started).c_str(), jbool(stop_delivered || lost).c_str(), jbool(ready).c_str(), vis, lost ? -1 : vas,
                    jbool(lost).c_str(), jbool(flag_atomic).c_str());
            fflush(o);
            n++;
            continue;
        }
        in.push("go " + go);
        bool got_park;
        { std::unique_lock<std::mutex> l(sm); got_park = scv.wait_for(l, std::chrono::milliseconds(wait_ms), [] { return parked; }); }
        bool ready_while_parked = true, sent_stop = false, stop_delivered = false;
        std::istringstream cs(cmds);
        std::string c;
        while (std::getline(cs, c, ','))
        {
            c = trim(c);
            if (c == "isready")
            {
                in.push("isready");
                // must be answered while the searcher is still parked (i.e. before it is released)
                ready_while_parked = ready_while_parked && out.wait_line("readyok", 3000);
            }
            else if (c == "stop")
            {
                in.push("stop");
                sent_stop = true;
                std::unique_lock<std::mutex> l(sm);
                stop_delivered = scv.wait_for(l, std::chrono::milliseconds(3000), [] { return stop_seen; });
            }
        }
        { std::lock_guard<std::mutex> l(sm); released = true; }
        scv.notify_all();
        std::string bm;
        bool got = out.wait_line("bestmove", wait_ms, &bm);
        long vas, vis;
        { std::lock_guard<std::mutex> l(sm); vas = visits_after_stopB; vis = visitsB; }
        bool lost = sent_stop && !got;
        if (lost) lost_total++;
        if (!got)
        {
            // the search is still running: bring it down with a second stop so that the session can go on
            in.push("stop");
            out.wait_line("bestmove", 8000, &bm);
            std::lock_guard<std::mutex> l(sm);
            vas = visits_after_stopB;
        }
        // give the detached thread time to leave go() before the next schedule replaces the Search object
        std::this_thread::sleep_for(std::chrono::milliseconds(20));
        fprintf(o, "{\"e\":\"go\",\"fen\":%s,\"from\":%s,\"moves\":[],\"limits\":{\"go\":%s,\"searchmoves\":[],\"tt\":\"fresh\",\"stop_id\":%s,\"stop_n\":%ld,\"tag\":%s}}\n",
                jstr(fen).c_str(), jstr(fen).c_str(), jstr(go).c_str(), jstr(pid).c_str(), pn, jstr(tag).c_str());
        long nb = 0, ni = 0;
        emit_output(o, out.text(), &nb, &ni);
        fprintf(o, "{\"e\":\"end\",\"mode\":\"threads\",\"bestcount\":%ld,\"infos\":%ld,\"parked\":%s,\"stop_sent\":%s,\"stop_delivered\":%s,\"ready_while_parked\":%s,"
                   "\"visits\":%ld,\"visits_after_stop\":%ld,\"lost_stop\":%s,\"forced\":false,\"flag_atomic\":%s,\"two_threads\":%s,"
                   "\"max_depth_index\":0,\"max_ply\":0,\"search_depth\":0,\"iters_after_stop\":0,\"limits_fired\":0,\"ms\":0}\n",
                nb, ni, jbool(got_park).c_str(), jbool(sent_stop).c_str(), jbool(stop_delivered).c_str(), jbool(ready_while_parked).c_str(), vis, vas,
                jbool(lost).c_str(), jbool(flag_atomic).c_str(), jbool(sent_stop ? stop_thread != search_thread : true).c_str());
        fflush(o);
        n++;
    }
    in.push("quit");
    // a reader that is stuck (e.g. on the output lock) must not hang the harness: the results are complete at this point
    for (int i = 0; i < 100 && !reader_done.load(); ++i) std::this_thread::sleep_for(std::chrono::milliseconds(50));
    fclose(o);
    fprintf(stderr, "schedules: %ld schedules replayed%s\n", n, reader_done.load() ? "" : " (the reader thread did not leave its loop)");
    if (!reader_done.load()) _exit(0);
    reader.join();
    engine::verif::sink.store(nullptr);
    std::cout.rdbuf(oc);
    std::cin.rdbuf(ic);
    return 0;
}

}  // namespace vh

// ---------------------------------------------------------------- C10: boundary sessions through the real UCI front end
namespace vh
{
// a legal game of the requested length from the start position: reversible shuffling with an irreversible move (pawn move or
// capture) before the 75-move rule would end the game, never reaching a fivefold repetition.  Generator only: the RulesTrace
// monitor validates that the produced game is legal and not over.
int cmd_long_game(const Args& a)
{
    init_engine();
    const int plies = (int)a.i("plies", 1000);
    std::mt19937_64 rng(a.i("seed", 1));
    Position p(a.s("fen", Position::STARTPOS_FEN));
    std::vector<std::string> ms;
    std::map<std::string, int> seen;
    auto key4 = [&](Position& q) { std::string f = q.fen(); size_t sp = 0; for (int i = 0; i < 4; ++i) sp = f.find(' ', sp + 1); return f.substr(0, sp); };
    seen[key4(p)] = 1;
    // NOTE: positions are rebuilt from the start when the engine's own history table would overflow (the generator must not crash
    // on the very defect it is meant to exhibit): it plays on a fresh Position every 600 plies, tracking repetition itself.
    int since_reload = 0;
    for (int ply = 0; ply < plies; ++ply)
    {
        if (since_reload >= 600) { p = Position(p.fen()); since_reload = 0; }
        MoveVec mv;
        mv.gen(p);
        if (mv.n == 0) break;
        std::vector<Move> irr, rev;
        for (int i = 0; i < mv.n; ++i)
        {
            Move m = mv.list[i];
            bool pawn = castling(m) == NO_CASTLING && make_piece_kind(p.piece_at(from(m))) == PAWN;
            bool cap = p.move_is_capture(m);
            (pawn || cap ? irr : rev).push_back(m);
        }
        Move chosen = NO_MOVE;
        bool need_irr = p.half_moves() >= 100 + (rng() % 40);
        // keep material: prefer quiet pawn moves as the irreversible ones, captures only when nothing else
        if (need_irr && !irr.empty())
        {
            std::vector<Move> quietp;
            for (Move m : irr) if (!p.move_is_capture(m) && promotion(m) == NO_PIECE_KIND) quietp.push_back(m);
            auto& pool = quietp.empty() ? irr : quietp;
            chosen = pool[rng() % pool.size()];
        }
        else
        {
            auto& pool = rev.empty() ? irr : rev;
            for (int t = 0; t < 30 && chosen == NO_MOVE; ++t)
            {
                Move m = pool[rng() % pool.size()];
                MoveInfo mi = p.do_move(m);
                MoveVec r;
                r.gen(p);
                bool ok = r.n > 0 && seen[key4(p)] < 3 && p.enough_material();
                p.undo_move(m, mi);
                if (ok) chosen = m;
            }
            if (chosen == NO_MOVE) chosen = mv.list[rng() % uint64_t(mv.n)];
        }
        if (p.half_moves() >= 149) break;
        ms.push_back(p.uci(chosen));
        p.do_move(chosen);
        since_reload++;
        seen[key4(p)]++;
        if (seen[key4(p)] >= 5) break;
    }
    FILE* o = fopen(a.s("out").c_str(), "w");
    for (auto& m : ms) fprintf(o, "%s\n", m.c_str());
    fclose(o);
    fprintf(stderr, "long-game: %zu plies, final %s\n", ms.size(), p.fen().c_str());
    return 0;
}

// run a UCI session script through the real Uci::loop (reader thread) with real search threads.
// script lines are sent verbatim; after every `go` the driver waits for the bestmove line (a well-formed GUI does).
int cmd_uci_session(const Args& a)
{
    init_engine();
    std::vector<std::string> script;
    {
        std::ifstream f(a.s("script"));
        std::string l;
        while (std::getline(f, l)) if (!l.empty()) script.push_back(l);
    }
    const int wait_ms = (int)a.i("wait-ms", 120000);
    InBuf in;
    OutBuf out;
    auto* oc = std::cout.rdbuf(&out);
    auto* ic = std::cin.rdbuf(&in);
    SA.reset();
    SA.visit_cap = 2000000000L;
    SA.unwind_bound = 2000000000L;
    engine::verif::sink.store(sink_a);
    Uci& uci = the_uci();
    std::thread reader([&] { uci.loop(); });
    long gos = 0, answered = 0;
    bool hung = false;
    FILE* tr = a.has("trace") ? fopen(a.s("trace").c_str(), "w") : nullptr;
    size_t consumed = 0;     // output lines already attributed to earlier commands
    auto flush_out = [&](const std::string& cmd) {
        if (!tr) return;
        std::vector<std::string> ls;
        { std::lock_guard<std::mutex> g(out.m); for (size_t i = consumed; i < out.lines.size(); ++i) ls.push_back(out.lines[i]); consumed = out.lines.size(); }
        std::string arr = "[";
        for (size_t i = 0; i < ls.size(); ++i) arr += (i ? "," : "") + jstr(ls[i]);
        fprintf(tr, "{\"e\":\"cmd\",\"text\":%s,\"out\":%s]}\n", jstr(cmd).c_str(), arr.c_str());
    };
    { in.push("isready"); out.wait_line("readyok", 10000); std::lock_guard<std::mutex> g(out.m); consumed = out.lines.size(); }
    for (auto& l : script)
    {
        int before = out.count("bestmove");
        in.push(l);
        if (l.rfind("go", 0) == 0)
        {
            gos++;
            auto t0 = std::chrono::steady_clock::now();
            while (out.count("bestmove") <= before)
            {
                std::this_thread::sleep_for(std::chrono::milliseconds(2));
                if (std::chrono::duration_cast<std::chrono::milliseconds>(std::chrono::steady_clock::now() - t0).count() > wait_ms) { hung = true; break; }
            }
            if (hung) break;
            answered++;
            std::this_thread::sleep_for(std::chrono::milliseconds(5));
            flush_out(l);
        }
        else
        {
            // commands are handled synchronously by the reader; isready is the barrier
            in.push("isready");
            int rb = out.count("readyok");
            auto t0 = std::chrono::steady_clock::now();
            while (out.count("readyok") <= rb - 0 && out.count("readyok") == rb)
            {
                std::this_thread::sleep_for(std::chrono::milliseconds(1));
                if (std::chrono::duration_cast<std::chrono::milliseconds>(std::chrono::steady_clock::now() - t0).count() > wait_ms) { hung = true; break; }
            }
            if (hung) break;
            flush_out(l);
        }
    }
    if (tr) fclose(tr);
    if (hung) { std::cout.rdbuf(oc); std::cin.rdbuf(ic); fprintf(stderr, "SESSION HUNG\n"); _exit(7); }
    in.push("quit");
    reader.join();
    engine::verif::sink.store(nullptr);
    std::cout.rdbuf(oc);
    std::cin.rdbuf(ic);
    printf("{\"lines\":%zu,\"gos\":%ld,\"answered\":%ld,\"final_fen\":%s,\"history_counter\":%d,\"max_depth_index\":%ld,\"max_ply\":%ld,\"visits\":%ld}\n", script.size(), gos,
           answered, jstr(uci.position.fen()).c_str(), uci.position._history_counter, SA.max_depth_index, SA.max_ply, SA.visits);
    return 0;
}
}  // namespace vh
