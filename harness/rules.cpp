// Rules drivers (code -> spec): drive the real Position / move generator /
// text functions and log one ndjson line per operation and observation for
// the RulesTrace monitor.  Also the spec -> code replay of position families.
#include "common.h"

namespace vh
{

struct Sharder
{
    std::vector<FILE*> f;
    int cur = 0;
    long lines = 0;
    Sharder(const std::string& dir, const std::string& stem, int k)
    {
        for (int i = 0; i < k; ++i)
        {
            std::string p = dir + "/" + stem + "." + std::to_string(i) + ".ndjson";
            FILE* h = fopen(p.c_str(), "w");
            if (!h) { perror(p.c_str()); exit(3); }
            f.push_back(h);
        }
    }
    void unit(int i) { cur = i % int(f.size()); }
    void put(const std::string& s) { fputs(s.c_str(), f[cur]); fputc('\n', f[cur]); lines++; }
    ~Sharder() { for (auto h : f) fclose(h); }
};

struct ObsOpt
{
    bool moves = true, preds = true, keys = true, repr = true, eval = false, fen2 = true;
};

static PositionScorer& scorer()
{
    static PositionScorer* s = new PositionScorer();
    return *s;
}

static std::string pos_event(Position& p, const MoveVec& mv, const ObsOpt& o)
{
    std::string s = "{\"e\":\"pos\",\"fen\":" + jstr(p.fen());
    if (o.moves) s += ",\"moves\":" + moves_json(p, mv);
    if (o.preds)
    {
        bool chk = p.is_in_check(p.color());
        s += ",\"chk\":" + jbool(chk);
        s += ",\"mate\":" + jbool(p.is_checkmate());
        s += ",\"stale\":" + jbool(p.is_stalemate());
        s += ",\"rep\":" + jbool(p.is_repeated());
        s += ",\"rep3\":" + jbool(p.threefold_repetition());
        s += ",\"r50\":" + jbool(p.rule50());
        s += ",\"mat\":" + jbool(p.enough_material());
        s += ",\"draw\":" + jbool(p.is_draw());
    }
    if (o.keys)
    {
        Position re(p.fen());
        s += ",\"key\":" + jstr(hex64(p.hash())) + ",\"pkey\":" + jstr(hex64(p.pawn_hash()));
        s += ",\"key2\":" + jstr(hex64(re.hash())) + ",\"pkey2\":" + jstr(hex64(re.pawn_hash()));
        if (o.fen2)
        {
            s += ",\"fen2\":" + jstr(re.fen());
            s += ",\"eq\":" + jbool(re == p && p == re);
            s += ",\"pl2\":" + jstr(piece_list_picture(re));
        }
    }
    if (o.repr)
    {
        s += ",\"pl\":" + jstr(piece_list_picture(p)) + ",\"bb\":" + jstr(bitboard_picture(p));
        s += ",\"hist\":" + std::to_string(p._history_counter);
    }
    if (o.eval) s += ",\"ev\":" + std::to_string((long)scorer().score(p));
    return s + "}";
}

static int castle_code(Move m)
{
    Castling c = castling(m);
    return c == NO_CASTLING ? 0 : (c == KING_CASTLING ? 1 : 2);
}

static std::string mv_event(Position& p, Move m, int nmoves, bool want_san)
{
    std::string u = p.uci(m);
    std::string s = "{\"e\":\"mv\",\"m\":" + jstr(u);
    s += ",\"cap\":" + jbool(p.move_is_capture(m));
    s += ",\"quiet\":" + jbool(p.move_is_quiet(m));
    s += ",\"gchk\":" + jbool(p.move_gives_check(m));
    Move back = p.parse_uci(u);
    s += ",\"uci2\":" + jstr(back == m ? u : ("!" + p.uci(back)));
    s += ",\"enc\":[" + std::to_string((int)from(m)) + "," + std::to_string((int)to(m)) + "," +
         std::to_string((int)promotion(m)) + "," + std::to_string(castle_code(m)) + "]";
    if (want_san && nmoves <= 128)
    {
        std::string san = p.san(m);
        Move ps = p.parse_san(san);
        s += ",\"san\":" + jstr(san) + ",\"san2\":" + jstr(ps == NO_MOVE ? std::string("-") : (ps == m ? u : p.uci(ps)));
    }
    return s + "}";
}

static std::string fen4(const Position& p)
{
    std::string f = p.fen();
    size_t sp = 0;
    for (int i = 0; i < 4; ++i) sp = f.find(' ', sp + 1);
    return f.substr(0, sp);
}

// ---------------------------------------------------------------- game walks
// policy: 0 uniform, 1 capture-biased, 2 shuffle (prefer undoing own last move: builds repetitions),
//         3 quiet-biased (long reversible play), 4 promotion/ep/castle hungry, 5 mate/stalemate seeking, 6 castle-then-quiet,
//         7 recur-after-special (in cmd_games: special move, then both sides out and back twice)
static Move pick(Position& p, const MoveVec& mv, std::mt19937_64& rng, int policy, Move last_own)
{
    auto rnd = [&](int n) { return int(rng() % uint64_t(n)); };
    if (policy == 1 && rnd(2))
        for (int t = 0; t < mv.n; ++t)
        {
            Move c = mv.list[rnd(mv.n)];
            if (p.move_is_capture(c)) return c;
        }
    if (policy == 2 && last_own != NO_MOVE && castling(last_own) == NO_CASTLING && rnd(10) < 7)
    {
        Move rev = create_move(to(last_own), from(last_own));
        for (int i = 0; i < mv.n; ++i)
            if (mv.list[i] == rev) return rev;
    }
    if (policy == 3 && rnd(10) < 9)
        for (int t = 0; t < 2 * mv.n; ++t)
        {
            Move c = mv.list[rnd(mv.n)];
            if (castling(c) != NO_CASTLING) continue;
            if (make_piece_kind(p.piece_at(from(c))) != PAWN && p.piece_at(to(c)) == NO_PIECE) return c;
        }
    if (policy == 4 && rnd(10) < 8)
        for (int i = 0; i < mv.n; ++i)
        {
            Move c = mv.list[i];
            bool pawn = castling(c) == NO_CASTLING && make_piece_kind(p.piece_at(from(c))) == PAWN;
            if (castling(c) != NO_CASTLING || promotion(c) != NO_PIECE_KIND ||
                (pawn && to(c) == p.enpassant_square()) ||
                (pawn && std::abs(int(to(c)) - int(from(c))) == 16 && rnd(2)))
                if (rnd(3)) return c;
        }
    if (policy == 6)   // castle as soon as possible, otherwise quiet piece moves: castling inside long reversible stretches
    {
        for (int i = 0; i < mv.n; ++i)
            if (castling(mv.list[i]) != NO_CASTLING && rnd(4)) return mv.list[i];
        for (int t = 0; t < 3 * mv.n; ++t)
        {
            Move c = mv.list[rnd(mv.n)];
            if (castling(c) != NO_CASTLING) continue;
            if (make_piece_kind(p.piece_at(from(c))) != PAWN && make_piece_kind(p.piece_at(from(c))) != KING && make_piece_kind(p.piece_at(from(c))) != ROOK &&
                p.piece_at(to(c)) == NO_PIECE)
                return c;
        }
        for (int t = 0; t < 2 * mv.n; ++t)
        {
            Move c = mv.list[rnd(mv.n)];
            if (castling(c) == NO_CASTLING && make_piece_kind(p.piece_at(from(c))) != PAWN && p.piece_at(to(c)) == NO_PIECE) return c;
        }
    }
    if (policy == 5)   // end the game if it can be ended: mate first, then stalemate (generator only; no verdict relies on it)
    {
        for (int pass = 0; pass < 2; ++pass)
            for (int i = 0; i < mv.n; ++i)
            {
                Move c = mv.list[i];
                MoveInfo mi = p.do_move(c);
                MoveVec r;
                r.gen(p);
                bool chk = p.is_in_check(p.color());
                p.undo_move(c, mi);
                if (r.n == 0 && (pass == 0 ? chk : !chk) && rnd(4)) return c;
            }
    }
    return mv.list[rnd(mv.n)];
}

int cmd_games(const Args& a)
{
    init_engine();
    std::vector<std::string> roots = a.has("roots") ? read_lines(a.s("roots")) : std::vector<std::string>{Position::STARTPOS_FEN};
    if (roots.empty()) roots.push_back(Position::STARTPOS_FEN);
    const int games = (int)a.i("games", 16), maxply = (int)a.i("maxply", 80), shards = (int)a.i("shards", 16);
    const int mvpct = (int)a.i("mv-pct", 20);      // % of positions for which every legal move is observed
    const bool want_san = a.i("san", 1) != 0;
    const int policy_opt = (int)a.i("policy", -1);
    std::mt19937_64 rng(a.i("seed", 1));
    Sharder out(a.s("out", "."), a.s("stem", "games"), shards);
    ObsOpt oo;
    oo.eval = a.i("eval", 0) != 0;
    oo.keys = a.i("keys", 1) != 0;
    oo.repr = a.i("repr", 1) != 0;
    long npos = 0, nmv = 0;
    for (int g = 0; g < games; ++g)
    {
        out.unit(g);
        const std::string root = a.i("roots-seq", 0) ? roots[g % roots.size()] : roots[rng() % roots.size()];
        Position p(root);
        out.put("{\"e\":\"reset\",\"fen\":" + jstr(p.fen()) + "}");
        int policy = policy_opt >= 0 ? policy_opt : int(rng() % 8);
        int shuffle_left = 0;
        Move shuffle_mv[2] = {NO_MOVE, NO_MOVE};
        std::map<std::string, int> seen;
        Move last_own[2] = {NO_MOVE, NO_MOVE};
        // optional prefix: a long game played first (operations only, no observations), so that the observed part of the
        // game lies beyond a given ply count (history capacity boundaries)
        if (a.has("prefix"))
        {
            std::vector<std::string> pm = read_lines(a.s("prefix"));
            size_t use = pm.size() - (pm.size() > 20 ? size_t(rng() % 20) : 0);
            for (size_t i = 0; i < use; ++i)
            {
                ++seen[fen4(p)];
                Move m = p.parse_uci(pm[i]);
                out.put("{\"e\":\"do\",\"m\":" + jstr(pm[i]) + "}");
                p.do_move(m);
                out.put("{\"e\":\"commit\"}");
            }
        }
        for (int ply = 0; ply <= maxply; ++ply)
        {
            MoveVec mv;
            mv.gen(p);
            out.put(pos_event(p, mv, oo));
            npos++;
            int occ = ++seen[fen4(p)];
            if (mv.n == 0 || p.half_moves() >= 150 || occ >= 5 || ply == maxply) break;
            if (int(rng() % 100) < mvpct)
                for (int i = 0; i < mv.n; ++i) { out.put(mv_event(p, mv.list[i], mv.n, want_san)); nmv++; }
            Move m = NO_MOVE;
            if (policy == 7)
            {
                // recur-after-special: a double pawn push answered by castling (or any castling, promotion, en-passant capture),
                // then both sides go out and back twice, so that the position right after the special move occurs three times
                auto quiet_out = [&]() -> Move {
                    for (int t = 0; t < 4 * mv.n; ++t)
                    {
                        Move c = mv.list[rng() % uint64_t(mv.n)];
                        if (castling(c) != NO_CASTLING || p.piece_at(to(c)) != NO_PIECE) continue;
                        PieceKind k = make_piece_kind(p.piece_at(from(c)));
                        if (k == KNIGHT || k == BISHOP || k == QUEEN) return c;
                        // a side without castling rights also shuffles with its king and rooks (their moves change no right, but they
                        // rewrite the rights part of the key: the recurrence then straddles a key update)
                        if ((k == ROOK || k == KING) && !(p.castling_rights() & CASTLING_RIGHTS[p.color()]) && rng() % 2) return c;
                    }
                    return NO_MOVE;
                };
                auto in_list = [&](Move c) { for (int i = 0; i < mv.n; ++i) if (mv.list[i] == c) return true; return false; };
                if (shuffle_left > 0)
                {
                    int phase = (8 - shuffle_left) % 4;   // 0,1: out moves of the two sides; 2,3: the way back
                    if (phase < 2) { m = quiet_out(); shuffle_mv[p.color()] = m; }
                    else { Move back = shuffle_mv[p.color()] == NO_MOVE ? NO_MOVE : create_move(to(shuffle_mv[p.color()]), from(shuffle_mv[p.color()])); m = in_list(back) ? back : NO_MOVE; }
                    shuffle_left = m == NO_MOVE ? 0 : shuffle_left - 1;
                }
                if (m == NO_MOVE)
                {
                    // castle when possible; else a double push after which the opponent can castle; else anything
                    for (int i = 0; i < mv.n && m == NO_MOVE; ++i)
                        if (castling(mv.list[i]) != NO_CASTLING && rng() % 4) m = mv.list[i];
                    for (int i = 0; i < mv.n && m == NO_MOVE; ++i)
                    {
                        Move c = mv.list[i];
                        if (castling(c) != NO_CASTLING || make_piece_kind(p.piece_at(from(c))) != PAWN || std::abs(int(to(c)) - int(from(c))) != 16) continue;
                        MoveInfo mi = p.do_move(c);
                        MoveVec r;
                        r.gen(p);
                        bool can = false;
                        for (int j = 0; j < r.n; ++j) can = can || castling(r.list[j]) != NO_CASTLING;
                        p.undo_move(c, mi);
                        if (can && rng() % 4) m = c;
                    }
                    if (m == NO_MOVE) m = pick(p, mv, rng, rng() % 3 ? 6 : 4, last_own[p.color()]);
                    bool pawn = castling(m) == NO_CASTLING && make_piece_kind(p.piece_at(from(m))) == PAWN;
                    bool special = castling(m) != NO_CASTLING || promotion(m) != NO_PIECE_KIND || (pawn && to(m) == p.enpassant_square()) ||
                                   (castling(m) == NO_CASTLING && p.piece_at(to(m)) != NO_PIECE &&
                                    (rng() % 4 == 0 || make_piece_kind(p.piece_at(to(m))) == ROOK));
                    if (special) { shuffle_left = 8; shuffle_mv[0] = shuffle_mv[1] = NO_MOVE; }
                }
            }
            else
                m = pick(p, mv, rng, policy, last_own[p.color()]);
            last_own[p.color()] = m;
            out.put("{\"e\":\"do\",\"m\":" + jstr(p.uci(m)) + "}");
            p.do_move(m);
            out.put("{\"e\":\"commit\"}");
        }
    }
    fprintf(stderr, "games: %d games, %ld positions, %ld move observations, %ld lines\n", games, npos, nmv, out.lines);
    return 0;
}

// ---------------------------------------------------------------- make/unmake tree walks (C03, C04)
struct TreeCtx
{
    Sharder* out;
    std::mt19937_64* rng;
    ObsOpt oo;
    int nulls_pct;
    long ops = 0;
};

static void tree(Position& p, int depth, int branch, TreeCtx& c, bool after_null)
{
    MoveVec mv;
    mv.gen(p);
    c.out->put(pos_event(p, mv, c.oo));
    if (depth == 0 || mv.n == 0) return;
    // null move (as the search does: not in check, not twice in a row)
    if (!after_null && !p.is_in_check(p.color()) && int((*c.rng)() % 100) < c.nulls_pct)
    {
        c.out->put("{\"e\":\"donull\"}");
        MoveInfo mi = p.do_null_move();
        c.ops++;
        tree(p, depth - 1, branch, c, true);
        p.undo_null_move(mi);
        c.out->put("{\"e\":\"undonull\"}");
        MoveVec mv2;
        mv2.gen(p);
        c.out->put(pos_event(p, mv2, c.oo));
    }
    int k = std::min(branch, mv.n);
    // choose k distinct moves, biased to special moves
    std::vector<int> idx(mv.n);
    for (int i = 0; i < mv.n; ++i) idx[i] = i;
    std::shuffle(idx.begin(), idx.end(), *c.rng);
    std::stable_sort(idx.begin(), idx.end(), [&](int x, int y) {
        auto special = [&](Move m) {
            return castling(m) != NO_CASTLING || promotion(m) != NO_PIECE_KIND ||
                   (make_piece_kind(p.piece_at(from(m))) == PAWN && to(m) == p.enpassant_square()) ||
                   p.piece_at(to(m)) != NO_PIECE;
        };
        return special(mv.list[x]) > special(mv.list[y]);
    });
    if ((*c.rng)() % 2) std::shuffle(idx.begin(), idx.end(), *c.rng);
    for (int j = 0; j < k; ++j)
    {
        Move m = mv.list[idx[j]];
        c.out->put("{\"e\":\"do\",\"m\":" + jstr(p.uci(m)) + "}");
        MoveInfo mi = p.do_move(m);
        c.ops++;
        tree(p, depth - 1, branch, c, false);
        p.undo_move(m, mi);
        c.out->put("{\"e\":\"undo\"}");
        MoveVec mv2;
        mv2.gen(p);
        c.out->put(pos_event(p, mv2, c.oo));
    }
}

int cmd_trees(const Args& a)
{
    init_engine();
    std::vector<std::string> roots = a.has("roots") ? read_lines(a.s("roots")) : std::vector<std::string>{Position::STARTPOS_FEN};
    const int units = (int)a.i("units", 16), shards = (int)a.i("shards", 16);
    const int depth = (int)a.i("depth", 4), branch = (int)a.i("branch", 3), prefix = (int)a.i("prefix", 30);
    std::mt19937_64 rng(a.i("seed", 1));
    Sharder out(a.s("out", "."), a.s("stem", "trees"), shards);
    TreeCtx c;
    c.out = &out;
    c.rng = &rng;
    c.oo.eval = a.i("eval", 1) != 0;
    c.nulls_pct = (int)a.i("nulls-pct", 30);
    for (int u = 0; u < units; ++u)
    {
        out.unit(u);
        Position p(a.i("roots-seq", 0) ? roots[u % roots.size()] : roots[rng() % roots.size()]);
        out.put("{\"e\":\"reset\",\"fen\":" + jstr(p.fen()) + "}");
        // random prefix so that the tree root has a history (repetition answers matter)
        int pre = prefix > 0 ? int(rng() % uint64_t(prefix + 1)) : 0;
        for (int i = 0; i < pre; ++i)
        {
            MoveVec mv;
            mv.gen(p);
            if (mv.n == 0 || p.half_moves() >= 100) break;
            Move m = mv.list[rng() % uint64_t(mv.n)];
            out.put("{\"e\":\"do\",\"m\":" + jstr(p.uci(m)) + "}");
            p.do_move(m);
            out.put("{\"e\":\"commit\"}");
        }
        tree(p, depth, branch, c, false);
    }
    fprintf(stderr, "trees: %d units, %ld make/unmake pairs, %ld lines\n", units, c.ops, out.lines);
    return 0;
}

// ---------------------------------------------------------------- spec -> code replay of position families
// input lines: {"fen":F,"legal":[uci...]} (legal sets computed by TLC)
// optional per-move expectations: "apply":[[uci,fen2,cap,quiet,gchk]...]
int cmd_replay_legal(const Args& a)
{
    init_engine();
    std::ifstream in(a.s("in"));
    std::string line;
    long n = 0, bad = 0, nontrivial = 0, napply = 0, nnested = 0;
    const bool nested = a.i("nested", 0) != 0;
    FILE* out = fopen(a.s("out", "/dev/stdout").c_str(), "w");
    while (std::getline(in, line))
    {
        if (line.find("\"fen\"") == std::string::npos) continue;
        std::string fen = jget(line, "fen");
        std::vector<std::string> want = jarr_str(jget(line, "legal"));
        Position p(fen);
        MoveVec mv;
        mv.gen(p);
        std::vector<std::string> got;
        for (int i = 0; i < mv.n; ++i) got.push_back(p.uci(mv.list[i]));
        std::set<std::string> ws(want.begin(), want.end()), gs(got.begin(), got.end());
        n++;
        if (p.enpassant_square() != NO_SQUARE || p.is_in_check(p.color()) || p.castling_rights() != NO_CASTLING) nontrivial++;
        std::string missing, extra;
        for (auto& w : ws) if (!gs.count(w)) missing += (missing.empty() ? "" : ",") + jstr(w);
        for (auto& g : gs) if (!ws.count(g)) extra += (extra.empty() ? "" : ",") + jstr(g);
        bool dup = gs.size() != got.size();
        // the FEN the engine prints for the loaded position must be the FEN the spec printed
        bool fenbad = p.fen() != fen;
        if (!missing.empty() || !extra.empty() || dup || fenbad)
        {
            bad++;
            fprintf(out, "{\"prop\":\"%s\",\"kind\":\"%s\",\"fen\":%s,\"detail\":{\"missing\":[%s],\"extra\":[%s],\"duplicate\":%s,\"engine_fen\":%s}}\n",
                    fenbad ? "C16" : "C01", fenbad ? "fen_load_print" : (!missing.empty() ? "missing" : (!extra.empty() ? "extra" : "duplicate")),
                    jstr(fen).c_str(), missing.c_str(), extra.c_str(), jbool(dup).c_str(), jstr(p.fen()).c_str());
        }
        // C03, nested: for every legal move, every legal reply is made and unmade, then the move is unmade; the full
        // observation (FEN, keys, piece lists, bitboards, generated move set) must be what it was
        if (nested)
        {
            auto observe = [](Position& q) {
                MoveVec v;
                v.gen(q);
                std::vector<std::string> ms;
                for (int i = 0; i < v.n; ++i) ms.push_back(q.uci(v.list[i]));
                std::sort(ms.begin(), ms.end());
                std::string o = q.fen() + "|" + hex64(q.hash()) + "|" + hex64(q.pawn_hash()) + "|" + piece_list_picture(q) + "|" + bitboard_picture(q) + "|";
                for (auto& m : ms) o += m + ",";
                return o;
            };
            std::string before = observe(p);
            for (int i = 0; i < mv.n; ++i)
            {
                Move m = mv.list[i];
                std::string um = p.uci(m);
                MoveInfo mi = p.do_move(m);
                MoveVec rv;
                rv.gen(p);
                std::string mid = observe(p);
                for (int j = 0; j < rv.n; ++j)
                {
                    Move r = rv.list[j];
                    MoveInfo ri = p.do_move(r);
                    p.undo_move(r, ri);
                    nnested++;
                }
                {
                    // observed once after all replies were made and unmade (one observation per first-level move)
                    std::string now = observe(p);
                    if (now != mid)
                    {
                        bad++;
                        fprintf(out, "{\"prop\":\"C03\",\"kind\":\"not_restored\",\"fen\":%s,\"detail\":{\"line\":[%s,\"<every reply>\"],\"level\":2,\"before\":%s,\"after\":%s}}\n",
                                jstr(fen).c_str(), jstr(um).c_str(), jstr(mid).c_str(), jstr(now).c_str());
                    }
                }
                p.undo_move(m, mi);
                std::string now = observe(p);
                if (now != before)
                {
                    bad++;
                    fprintf(out, "{\"prop\":\"C03\",\"kind\":\"not_restored\",\"fen\":%s,\"detail\":{\"line\":[%s],\"level\":1,\"before\":%s,\"after\":%s}}\n",
                            jstr(fen).c_str(), jstr(um).c_str(), jstr(before).c_str(), jstr(now).c_str());
                    p = Position(fen);
                    mv.gen(p);
                }
            }
        }
        // per-move expectations computed by the spec: [uci, fen after, capture, quiet, gives check]
        std::string ap = jget(line, "apply");
        if (!ap.empty())
        {
            size_t i = 1;
            while (i < ap.size())
            {
                size_t b = ap.find('[', i);
                if (b == std::string::npos) break;
                size_t e = ap.find(']', b);
                std::string item = ap.substr(b, e - b + 1);
                i = e + 1;
                std::vector<std::string> strs = jarr_str(item);
                if (strs.size() < 2) continue;
                size_t tail = item.rfind('"');
                std::string flags = item.substr(tail + 1);
                bool wcap = false, wquiet = false, wchk = false;
                {
                    std::vector<bool> fl;
                    size_t q = 0;
                    while (q < flags.size())
                    {
                        if (flags.compare(q, 4, "true") == 0) { fl.push_back(true); q += 4; }
                        else if (flags.compare(q, 5, "false") == 0) { fl.push_back(false); q += 5; }
                        else q++;
                    }
                    if (fl.size() == 3) { wcap = fl[0]; wquiet = fl[1]; wchk = fl[2]; }
                }
                Move m = NO_MOVE;
                for (int k = 0; k < mv.n; ++k)
                    if (p.uci(mv.list[k]) == strs[0]) m = mv.list[k];
                if (m == NO_MOVE) continue;  // already reported as missing
                napply++;
                {
                    // C16: the text the engine prints for the move is the spec's, and parses back to the very same move
                    Move back = p.parse_uci(strs[0]);
                    if (back != m)
                    {
                        bad++;
                        fprintf(out, "{\"prop\":\"C16\",\"kind\":\"uci_roundtrip\",\"fen\":%s,\"detail\":{\"m\":%s,\"parsed_back_word\":%u,\"move_word\":%u}}\n",
                                jstr(fen).c_str(), jstr(strs[0]).c_str(), (unsigned)back, (unsigned)m);
                    }
                }
                bool cap = p.move_is_capture(m), quiet = p.move_is_quiet(m), chk = p.move_gives_check(m);
                if (cap != wcap || quiet != wquiet || chk != wchk)
                {
                    bad++;
                    fprintf(out, "{\"prop\":\"C15\",\"kind\":\"classification\",\"fen\":%s,\"detail\":{\"m\":%s,\"castle\":%s,\"promo\":%d,\"engine\":[%s,%s,%s],\"spec\":[%s,%s,%s]}}\n",
                            jstr(fen).c_str(), jstr(strs[0]).c_str(), jbool(castling(m) != NO_CASTLING).c_str(), (int)promotion(m),
                            jbool(cap).c_str(), jbool(quiet).c_str(), jbool(chk).c_str(), jbool(wcap).c_str(), jbool(wquiet).c_str(), jbool(wchk).c_str());
                }
                {
                    // C02 through the text path (what `position ... moves` does): parse the move text, play it on a copy
                    Position q(fen);
                    q.do_move(q.parse_uci(strs[0]));
                    if (q.fen() != strs[1])
                    {
                        bad++;
                        fprintf(out, "{\"prop\":\"C02\",\"kind\":\"fen_via_move_text\",\"fen\":%s,\"detail\":{\"m\":%s,\"castle\":%s,\"engine\":%s,\"spec\":%s}}\n",
                                jstr(fen).c_str(), jstr(strs[0]).c_str(), jbool(castling(m) != NO_CASTLING).c_str(), jstr(q.fen()).c_str(), jstr(strs[1]).c_str());
                    }
                }
                std::string before = p.fen();
                uint64_t k0 = p.hash(), pk0 = p.pawn_hash();
                MoveInfo mi = p.do_move(m);
                std::string after = p.fen();
                if (after != strs[1])
                {
                    bad++;
                    fprintf(out, "{\"prop\":\"C02\",\"kind\":\"fen\",\"fen\":%s,\"detail\":{\"m\":%s,\"castle\":%s,\"engine\":%s,\"spec\":%s}}\n",
                            jstr(fen).c_str(), jstr(strs[0]).c_str(), jbool(castling(m) != NO_CASTLING).c_str(), jstr(after).c_str(), jstr(strs[1]).c_str());
                }
                p.undo_move(m, mi);
                if (p.fen() != before || p.hash() != k0 || p.pawn_hash() != pk0)
                {
                    bad++;
                    fprintf(out, "{\"prop\":\"C03\",\"kind\":\"not_restored\",\"fen\":%s,\"detail\":{\"m\":%s,\"after_undo\":%s}}\n",
                            jstr(fen).c_str(), jstr(strs[0]).c_str(), jstr(p.fen()).c_str());
                    p = Position(fen);
                }
            }
        }
    }
    fprintf(out, "{\"summary\":true,\"positions\":%ld,\"mismatches\":%ld,\"nontrivial\":%ld,\"applied\":%ld,\"nested\":%ld}\n", n, bad, nontrivial, napply, nnested);
    fclose(out);
    return 0;
}

}  // namespace vh
