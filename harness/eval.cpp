// Contract-shaped properties: time allocation (C20), evaluation symmetry (C13), evaluation purity and bounds (C14).
#include "common.h"

namespace vh
{
// ---------------------------------------------------------------- C20
// input rows "inc mtg ply side | r1 r2 ..." (TimeGen.tla); output one ndjson line per chain with the allocations
int cmd_time_replay(const Args& a)
{
    std::ifstream in(a.s("in"));
    const int shards = (int)a.i("shards", 16);
    std::vector<FILE*> f;
    for (int i = 0; i < shards; ++i) f.push_back(fopen((a.s("out", ".") + "/" + a.s("stem", "clk") + "." + std::to_string(i) + ".ndjson").c_str(), "w"));
    std::string line;
    long chains = 0, calls = 0;
    while (std::getline(in, line))
    {
        size_t bar = line.find('|');
        if (bar == std::string::npos) continue;
        long inc, mtg, ply, side;
        sscanf(line.c_str(), "%ld %ld %ld %ld", &inc, &mtg, &ply, &side);
        std::vector<long> rems = jarr_int(line.substr(bar + 1));
        // three orders of evaluation of the same clock states: ascending along the chain (a), every state after a call at another
        // ply and for the other colour (f: as in a game, where the previous call was a different clock state), descending (d).
        // "For every clock state ... the thinking time" is a function of the clock state: the three must agree.
        auto call = [&](long rem, long p, long sd) {
            Limits lim;
            lim.timeleft[sd] = (int)rem;
            lim.timeinc[sd] = (int)inc;
            lim.timeleft[1 - sd] = 12345;   // the opponent's clock must not matter
            lim.timeinc[1 - sd] = 777;
            lim.movestogo = (int)mtg;
            Duration t = TimeManager::calculateTime(lim, Color(sd), (int)p);
            calls++;
            // keep the value inside 32 bits for the monitor; anything outside is a violation it will see as such
            return t > 2000000000L ? 2000000000L : (t < -2000000000L ? -2000000000L : (long)t);
        };
        std::vector<long> ta(rems.size()), tf(rems.size()), td(rems.size());
        for (size_t i = 0; i < rems.size(); ++i) ta[i] = call(rems[i], ply, side);
        const bool orders = chains % 2 == 0;      // (every second chain: the monitor's input stays small)
        for (size_t i = 0; i < rems.size() && orders; ++i) { call(rems[i] / 2 + 1000, ply + 1, 1 - side); tf[i] = call(rems[i], ply, side); }
        for (size_t i = rems.size(); orders && i-- > 0;) td[i] = call(rems[i], ply, side);
        if (!orders) { tf.clear(); td.clear(); }
        auto arr = [](const std::vector<long>& v) { std::string o = "["; for (size_t i = 0; i < v.size(); ++i) o += (i ? "," : "") + std::to_string(v[i]); return o + "]"; };
        fprintf(f[chains % shards], "{\"inc\":%ld,\"mtg\":%ld,\"ply\":%ld,\"side\":%ld,\"rem\":%s,\"t\":%s,\"tf\":%s,\"td\":%s}\n", inc, mtg, ply, side,
                arr(rems).c_str(), arr(ta).c_str(), arr(tf).c_str(), arr(td).c_str());
        chains++;
    }
    for (auto h : f) fclose(h);
    fprintf(stderr, "time-replay: %ld chains, %ld calls\n", chains, calls);
    return 0;
}

// ---------------------------------------------------------------- position sources for the evaluator
static std::string mirror_fen(const std::string& fen)
{
    std::istringstream ss(fen);
    std::string pl, stm, ca, ep;
    int h, f;
    ss >> pl >> stm >> ca >> ep >> h >> f;
    std::vector<std::string> ranks;
    std::string cur;
    for (char c : pl) { if (c == '/') { ranks.push_back(cur); cur = ""; } else cur += c; }
    ranks.push_back(cur);
    std::string out;
    for (int i = 7; i >= 0; --i)
    {
        for (char c : ranks[i]) out += isalpha(c) ? (isupper(c) ? (char)tolower(c) : (char)toupper(c)) : c;
        if (i) out += '/';
    }
    std::string ca2;
    if (ca == "-") ca2 = "-";
    else
    {
        std::string t;
        for (char c : ca) t += isupper(c) ? (char)tolower(c) : (char)toupper(c);
        for (char c : std::string("KQkq")) if (t.find(c) != std::string::npos) ca2 += c;
    }
    std::string ep2 = ep == "-" ? "-" : std::string(1, ep[0]) + char('1' + ('8' - ep[1]));
    return out + " " + (stm == "w" ? "b" : "w") + " " + ca2 + " " + ep2 + " " + std::to_string(h) + " " + std::to_string(f);
}

struct ClassTpl { const char* name; const char* strong; const char* weak; };
static const ClassTpl CLASSES[] = {
    {"KPK", "P", ""}, {"KPsK", "PP", ""}, {"KPsK", "PPP", ""}, {"KRKB", "R", "B"}, {"KRKN", "R", "N"}, {"KNNK", "NN", ""},
    {"KNNKP", "NN", "P"}, {"KQKR", "Q", "R"}, {"KNBK", "NB", ""}, {"KRNKR", "RN", "R"}, {"KRBKR", "RB", "R"},
    {"KBPsK", "BP", ""}, {"KBPsK", "BPP", ""}, {"KBPsKB", "BP", "B"}, {"KBPsKB", "BPP", "B"}, {"KRKP", "R", "P"}, {"KQKP", "Q", "P"},
    {"KQKRPs", "Q", "RP"}, {"KQKRPs", "Q", "RPP"}, {"KmmKm", "BB", "N"}, {"KmmKm", "BN", "B"}, {"KmmKm", "NN", "B"}, {"KmmKm", "BB", "B"},
    {"KXK", "Q", ""}, {"KXK", "R", ""}, {"KXK", "QR", ""}, {"KXK", "BB", ""}, {"KXK", "RP", ""}, {"KXK", "QQQQQQQQQ", ""},
    {"general", "RP", "RP"}, {"general", "QPP", "RBP"}, {"general", "NPPP", "BPP"}, {"general", "RRPP", "QP"}, {"general", "PP", "P"}, {"general", "PPP", "PP"},
};

// the most material one side can own (eight promotions on top of the original pieces), alone and against material: for the
// bounds of the evaluation only (kept out of CLASSES: the search pools draw their sparse positions from that list)
static const ClassTpl HEAVY[] = {
    {"KXK", "QQQQQQQQQRRBBNN", ""}, {"KXK", "QQQQQQQQQRR", ""}, {"KXK", "QQQQQQQRRBBN", ""}, {"KXK", "QRRRRRRRRRRBBNN", ""}, {"KXK", "QRRBBNNNNNNNNNN", ""},
    {"general", "QQQQQQQQQRRBBNN", "P"}, {"general", "QQQQQQQQQRRBBNN", "QRRBBNN"}, {"general", "QQQQQRRBBNNPPPP", "QRRBBNNPPPPPPPP"},
};

// random legal-looking placement of a material class; returns "" if the attempt is not a legal position
// cluster: most pieces are put within two squares of a drawn focus square, so that the geometric relations the specialised
// evaluators test (blockade squares, adjacent files, king next to pawn, same diagonal) occur far more often than by uniform placement
static std::string random_class_fen(const ClassTpl& c, bool strong_white, std::mt19937_64& rng, bool cluster = false)
{
    char b[64];
    memset(b, 0, sizeof b);
    const int focus = int(rng() % 64);
    auto place = [&](char ch) {
        const bool near = cluster && rng() % 10 < 8;
        for (int t = 0; t < 200; ++t)
        {
            int s = int(rng() % 64);
            if (b[s]) continue;
            if (near && std::max(std::abs(s % 8 - focus % 8), std::abs(s / 8 - focus / 8)) > 2) continue;
            if ((ch == 'P' || ch == 'p') && (s < 8 || s >= 56)) continue;
            b[s] = ch;
            return true;
        }
        return false;
    };
    auto col = [&](char ch, bool white) { return white ? (char)toupper(ch) : (char)tolower(ch); };
    if (!place('K') || !place('k')) return "";
    for (const char* p = c.strong; *p; ++p) if (!place(col(*p, strong_white))) return "";
    for (const char* p = c.weak; *p; ++p) if (!place(col(*p, !strong_white))) return "";
    if (cluster && rng() % 2)
    {
        // blockade shapes: a second pawn on the file next to the most advanced one and behind it, the weak king on the square in
        // front of the most advanced pawn or beside it on the other pawn's file, the weak bishop on a diagonal through the other of
        // those two squares (the geometric preconditions of the drawn-fortress rules)
        const int up = strong_white ? 8 : -8;
        const char sp = col('P', strong_white), wk = col('K', !strong_white), wb = col('B', !strong_white);
        auto adv = [&](int s) { return strong_white ? s / 8 : 7 - s / 8; };
        std::vector<int> pawns;
        for (int s = 0; s < 64; ++s) if (b[s] == sp) pawns.push_back(s);
        if (!pawns.empty())
        {
            std::sort(pawns.begin(), pawns.end(), [&](int x, int y) { return adv(x) > adv(y); });
            int p1 = pawns[0];
            int f2 = p1 % 8 + (rng() % 2 ? 1 : -1);
            if (f2 < 0 || f2 > 7) f2 = p1 % 8 + (f2 < 0 ? 1 : -1);
            if (pawns.size() >= 2 && rng() % 4)
            {
                int back = 1 + int(rng() % 2);
                int r2 = p1 / 8 - (strong_white ? back : -back);
                int t = r2 * 8 + f2;
                if (r2 >= 1 && r2 <= 6 && !b[t]) { b[pawns[1]] = 0; b[t] = sp; }
            }
            int block1 = p1 + up, block2 = (p1 / 8) * 8 + f2;
            if (block1 >= 0 && block1 < 64)
            {
                int kt = rng() % 2 ? block1 : block2, other = kt == block1 ? block2 : block1;
                if (!b[kt] || b[kt] == wk)
                {
                    for (int s = 0; s < 64; ++s) if (b[s] == wk) b[s] = 0;
                    b[kt] = wk;
                    if (rng() % 4)
                    {
                        std::vector<int> diag;
                        for (int s = 0; s < 64; ++s)
                            if (!b[s] && s != other && std::abs(s % 8 - other % 8) == std::abs(s / 8 - other / 8)) diag.push_back(s);
                        bool has = false;
                        for (int s = 0; s < 64; ++s) has = has || b[s] == wb;
                        if (has && !diag.empty())
                        {
                            for (int s = 0; s < 64; ++s) if (b[s] == wb) { b[s] = 0; break; }
                            b[diag[rng() % diag.size()]] = wb;
                        }
                    }
                }
            }
        }
    }
    std::string f;
    for (int r = 7; r >= 0; --r)
    {
        int e = 0;
        for (int k = 0; k < 8; ++k)
        {
            char ch = b[r * 8 + k];
            if (!ch) e++;
            else { if (e) f += char('0' + e); e = 0; f += ch; }
        }
        if (e) f += char('0' + e);
        if (r) f += '/';
    }
    f += (rng() % 2) ? " w - - 0 1" : " b - - 0 1";
    Position p(f);
    if (distance(p.piece_position(W_KING), p.piece_position(B_KING)) <= 1) return "";
    if (p.is_in_check(!p.color())) return "";
    return f;
}

// attacking material against a king on the rim (mating nets, checks and captures everywhere): for the mate-announcement pools
std::string random_attack_fen(std::mt19937_64& rng)
{
    static const char* strong[] = {"QR", "QRN", "QB", "RRN", "QN", "QRB", "RR", "QQ", "RBN", "QRP"};
    static const char* weak[] = {"R", "RN", "N", "NN", "RB", "B", "RP", "NP", "RNP", "Q"};
    for (int attempt = 0; attempt < 50; ++attempt)
    {
        char b[64];
        memset(b, 0, sizeof b);
        bool strong_white = rng() % 2;
        // weak king on the rim
        int rim[28], nr = 0;
        for (int s = 0; s < 64; ++s) if (s < 8 || s >= 56 || s % 8 == 0 || s % 8 == 7) rim[nr++] = s;
        int wk = rim[rng() % nr];
        b[wk] = strong_white ? 'k' : 'K';
        auto place = [&](char ch, bool near) {
            for (int t = 0; t < 200; ++t)
            {
                int s = int(rng() % 64);
                if (b[s]) continue;
                if ((ch == 'P' || ch == 'p') && (s < 8 || s >= 56)) continue;
                if (near && std::max(std::abs(s % 8 - wk % 8), std::abs(s / 8 - wk / 8)) > 4) continue;
                b[s] = ch;
                return true;
            }
            return false;
        };
        bool ok = place(strong_white ? 'K' : 'k', false);
        for (const char* q = strong[rng() % 10]; *q && ok; ++q) ok = place(strong_white ? *q : (char)tolower(*q), rng() % 3 != 0);
        for (const char* q = weak[rng() % 10]; *q && ok; ++q) ok = place(strong_white ? (char)tolower(*q) : *q, rng() % 2);
        if (!ok) continue;
        std::string f;
        for (int r = 7; r >= 0; --r)
        {
            int e = 0;
            for (int k = 0; k < 8; ++k)
            {
                char ch = b[r * 8 + k];
                if (!ch) e++;
                else { if (e) f += char('0' + e); e = 0; f += ch; }
            }
            if (e) f += char('0' + e);
            if (r) f += '/';
        }
        f += (rng() % 4 ? (strong_white ? " w" : " b") : (strong_white ? " b" : " w"));
        f += " - - 0 1";
        Position p(f);
        if (distance(p.piece_position(W_KING), p.piece_position(B_KING)) <= 1) continue;
        if (p.is_in_check(!p.color())) continue;
        return f;
    }
    return "";
}

// sparse random material for the search pools: kind cycles through the class templates; extra pawns now and then
std::string random_material_fen(std::mt19937_64& rng, int kind)
{
    const int ncls = int(sizeof(CLASSES) / sizeof(CLASSES[0]));
    return random_class_fen(CLASSES[(kind % 2) ? int(rng() % ncls) : (ncls - 1 - int(rng() % 8))], rng() % 2, rng);
}

// the k-th request: class k/2 of CLASSES, strong side white for even k; "END" beyond the list (callers loop until then)
std::string class_fen_by_index(std::mt19937_64& rng, int k)
{
    const int ncls = int(sizeof(CLASSES) / sizeof(CLASSES[0]));
    if (k / 2 >= ncls) return "END";
    for (int t = 0; t < 20; ++t)
    {
        std::string f = random_class_fen(CLASSES[k / 2], k % 2 == 0, rng, t % 2 == 1);
        if (!f.empty()) return f;
    }
    return "";
}

static PositionScorer& long_lived()
{
    static PositionScorer* s = new PositionScorer();
    return *s;
}

// ---------------------------------------------------------------- C13
int cmd_eval_mirror(const Args& a)
{
    init_engine();
    std::vector<std::string> roots = read_lines(a.s("roots"));
    const int games = (int)a.i("games", 16), maxply = (int)a.i("maxply", 120), per_class = (int)a.i("per-class", 50), shards = (int)a.i("shards", 16);
    std::mt19937_64 rng(a.i("seed", 1));
    std::vector<FILE*> f;
    for (int i = 0; i < shards; ++i) f.push_back(fopen((a.s("out", ".") + "/" + a.s("stem", "mir") + "." + std::to_string(i) + ".ndjson").c_str(), "w"));
    long n = 0;
    PositionScorer& sc = long_lived();
    auto emit = [&](Position& p, const char* src) {
        std::string fen = p.fen(), mf = mirror_fen(fen);
        Position q(mf);
        long v = (long)sc.score(p), mv = (long)sc.score(q);
        fprintf(f[n % shards], "{\"src\":\"%s\",\"fen\":%s,\"mfen\":%s,\"v\":%ld,\"mv\":%ld}\n", src, jstr(fen).c_str(), jstr(mf).c_str(), v, mv);
        n++;
    };
    for (int g = 0; g < games; ++g)
    {
        Position p(roots[rng() % roots.size()]);
        for (int ply = 0; ply < maxply; ++ply)
        {
            MoveVec mv;
            mv.gen(p);
            if (mv.n == 0 || p.rule50()) break;
            Move m = mv.list[rng() % uint64_t(mv.n)];
            if (rng() % 2)
                for (int t = 0; t < mv.n; ++t) { Move c = mv.list[rng() % uint64_t(mv.n)]; if (p.move_is_capture(c)) { m = c; break; } }
            p.do_move(m);
            emit(p, "game");
        }
    }
    std::vector<ClassTpl> all_classes(std::begin(CLASSES), std::end(CLASSES));
    all_classes.insert(all_classes.end(), std::begin(HEAVY), std::end(HEAVY));
    for (const ClassTpl& c : all_classes)
        for (int k = 0; k < per_class; ++k)
        {
            std::string fen = random_class_fen(c, rng() % 2, rng, k % 2 == 1);
            if (fen.empty()) { continue; }
            Position p(fen);
            emit(p, c.name);
        }
    for (auto h : f) fclose(h);
    fprintf(stderr, "eval-mirror: %ld pairs\n", n);
    return 0;
}

// ---------------------------------------------------------------- C14
// (a) stream: long-lived evaluator (with clear() interleaved as `ucinewgame` does) against a fresh evaluator
int cmd_eval_pure(const Args& a)
{
    init_engine();
    std::vector<std::string> roots = read_lines(a.s("roots"));
    const int games = (int)a.i("games", 16), maxply = (int)a.i("maxply", 100), per_class = (int)a.i("per-class", 20), shards = (int)a.i("shards", 16);
    const int fresh_every = (int)a.i("fresh-every", 4);
    std::mt19937_64 rng(a.i("seed", 1));
    std::vector<FILE*> f;
    for (int i = 0; i < shards; ++i) f.push_back(fopen((a.s("out", ".") + "/" + a.s("stem", "pure") + "." + std::to_string(i) + ".ndjson").c_str(), "w"));
    long n = 0, nfresh = 0;
    PositionScorer sc;   // this driver's own long-lived evaluator
    FILE* o = f[0];
    std::set<std::string> seen_fens;
    auto emit = [&](Position& p, const char* src) {
        seen_fens.insert(p.fen());
        long v = (long)sc.score(p);
        bool want_fresh = (n % fresh_every) == 0 || p.pieces(PAWN) == 0;
        if (want_fresh)
        {
            std::unique_ptr<PositionScorer> fr(new PositionScorer());
            long vf = (long)fr->score(p);
            nfresh++;
            fprintf(o, "{\"e\":\"eval\",\"src\":\"%s\",\"fen\":%s,\"v\":%ld,\"vf\":%ld,\"pk0\":%s}\n", src, jstr(p.fen()).c_str(), v, vf, jbool(p.pawn_hash() == 0).c_str());
        }
        else
            fprintf(o, "{\"e\":\"eval\",\"src\":\"%s\",\"fen\":%s,\"v\":%ld,\"pk0\":%s}\n", src, jstr(p.fen()).c_str(), v, jbool(p.pawn_hash() == 0).c_str());
        n++;
    };
    for (int g = 0; g < games; ++g)
    {
        o = f[g % shards];
        if (rng() % 3 == 0) { sc.clear(); fprintf(o, "{\"e\":\"clear\"}\n"); }
        Position p(roots[rng() % roots.size()]);
        for (int ply = 0; ply < maxply; ++ply)
        {
            MoveVec mv;
            mv.gen(p);
            if (mv.n == 0 || p.rule50()) break;
            Move m = mv.list[rng() % uint64_t(mv.n)];
            if (rng() % 2)
                for (int t = 0; t < mv.n; ++t) { Move c = mv.list[rng() % uint64_t(mv.n)]; if (p.move_is_capture(c)) { m = c; break; } }
            p.do_move(m);
            emit(p, "game");
            if (rng() % 64 == 0) { sc.clear(); fprintf(o, "{\"e\":\"clear\"}\n"); }
        }
    }
    std::vector<ClassTpl> all_classes(std::begin(CLASSES), std::end(CLASSES));
    all_classes.insert(all_classes.end(), std::begin(HEAVY), std::end(HEAVY));
    for (const ClassTpl& c : all_classes)
        for (int k = 0; k < per_class; ++k)
        {
            std::string fen = random_class_fen(c, rng() % 2, rng);
            if (fen.empty()) continue;
            Position p(fen);
            o = f[n % shards];
            emit(p, c.name);
        }
    // shuffle phase: the same positions again in random order, so that every evaluation follows an UNRELATED position (scratch state
    // left by the previous call must not leak); every value is compared with the fresh evaluator's value of that position
    {
        std::vector<std::string> fens(seen_fens.begin(), seen_fens.end());
        std::shuffle(fens.begin(), fens.end(), rng);
        if ((long)fens.size() > a.i("shuffle-max", 4000)) fens.resize(a.i("shuffle-max", 4000));
        std::map<std::string, long> fresh;
        for (auto& fe : fens)
        {
            std::unique_ptr<PositionScorer> fr(new PositionScorer());
            Position q(fe);
            fresh[fe] = (long)fr->score(q);
            nfresh++;
        }
        for (int round = 0; round < 3; ++round)
        {
            std::shuffle(fens.begin(), fens.end(), rng);
            for (auto& fe : fens)
            {
                Position q(fe);
                long v = (long)sc.score(q);
                fprintf(f[n % shards], "{\"e\":\"eval\",\"src\":\"shuffle\",\"fen\":%s,\"v\":%ld,\"vf\":%ld,\"pk0\":%s}\n", jstr(fe).c_str(), v, fresh[fe],
                        jbool(q.pawn_hash() == 0).c_str());
                n++;
            }
        }
    }
    for (auto h : f) fclose(h);
    fprintf(stderr, "eval-pure: %ld evaluations, %ld against a fresh evaluator\n", n, nfresh);
    return 0;
}

// (b) spec -> code: concretise the cache histories of EvalCache.tla on the real 2^18-slot table.
// History kinds (ops are e = evaluate, c = clear):
//   stale0   : e(S0) c e(P)        S0: pawn structure whose pawn key has its 18 low bits zero, P: pawnless position
//   collide  : e(A) e(B) e(A) e(B) A, B: different structures mapping to the same slot
//   reeval   : e(A) c e(A) e(P) e(A)
// every evaluation is compared with a fresh evaluator's value
int cmd_eval_cache_replay(const Args& a)
{
    init_engine();
    FILE* out = fopen(a.s("out", "/dev/stdout").c_str(), "w");
    std::mt19937_64 rng(a.i("seed", 1));
    const uint64_t MASK = 512 * 512 - 1;
    const int want = (int)a.i("structures", 3);
    // search pawn structures by slot
    std::vector<std::string> zero_slot;                     // pawn key != 0, low bits == 0
    std::map<uint64_t, std::vector<std::string>> by_slot;   // for collisions
    std::vector<std::pair<std::string, std::string>> collisions;
    // partial-key collisions: different structures agreeing in the low / high 32 bits of the pawn key (birthday search);
    // a table that compares only part of the key confuses them
    std::unordered_map<uint32_t, std::pair<uint64_t, std::string>> lo32, hi32;
    std::vector<std::pair<std::string, std::string>> part_lo, part_hi;
    const int want_partial = (int)a.i("partial", 2);
    const long partial_budget = a.i("partial-budget", 600000);
    long tries = 0;
    const char* frames[] = {"r3k3/%s/R3K2R", "4k3/%s/4K3", "1n2k3/%s/2B1K3", "3qk3/%s/3QK3"};
    while ((((int)zero_slot.size() < want || (int)collisions.size() < want) && tries < 40000000) ||
           (((int)part_lo.size() < want_partial || (int)part_hi.size() < want_partial) && tries < partial_budget))
    {
        tries++;
        char b[6][8];
        memset(b, 0, sizeof b);
        int nw = 1 + int(rng() % 4), nb = 1 + int(rng() % 4);
        for (int i = 0; i < nw; i++) { int s = int(rng() % 48); b[s / 8][s % 8] = 'P'; }
        for (int i = 0; i < nb; i++) { int s = int(rng() % 48); if (!b[s / 8][s % 8]) b[s / 8][s % 8] = 'p'; }
        std::string mid;
        for (int r = 5; r >= 0; --r)
        {
            int e = 0;
            for (int k = 0; k < 8; ++k)
            {
                if (!b[r][k]) e++;
                else { if (e) mid += char('0' + e); e = 0; mid += b[r][k]; }
            }
            if (e) mid += char('0' + e);
            if (r) mid += '/';
        }
        char buf[200];
        snprintf(buf, sizeof buf, frames[tries % 4], mid.c_str());
        std::string fen = std::string(buf) + " w - - 0 1";
        Position p(fen);
        if (p.is_in_check(BLACK)) continue;
        uint64_t pk = p.pawn_hash();
        if (pk != 0 && (pk & MASK) == 0 && (int)zero_slot.size() < want) zero_slot.push_back(fen);
        if (tries < partial_budget)
        {
            auto look = [&](std::unordered_map<uint32_t, std::pair<uint64_t, std::string>>& m, uint32_t part,
                            std::vector<std::pair<std::string, std::string>>& outv) {
                auto it = m.find(part);
                if (it == m.end()) m.emplace(part, std::make_pair(pk, fen));
                else if (it->second.first != pk && (int)outv.size() < want_partial) outv.push_back({it->second.second, fen});
            };
            look(lo32, uint32_t(pk & 0xFFFFFFFFu), part_lo);
            look(hi32, uint32_t(pk >> 32), part_hi);
        }
        if ((int)collisions.size() < want && tries < 3000000)
        {
            auto& v = by_slot[pk & MASK];
            bool dup = false;
            for (auto& o : v) if (Position(o).pawn_hash() == pk) dup = true;
            if (!dup)
            {
                if (!v.empty()) collisions.push_back({v[0], fen});
                v.push_back(fen);
            }
        }
    }
    by_slot.clear();
    long evals = 0, bad = 0, histories = 0;
    auto fresh_value = [&](const std::string& fen) { std::unique_ptr<PositionScorer> fr(new PositionScorer()); Position p(fen); return (long)fr->score(p); };
    auto run = [&](const std::string& kind, const std::vector<std::string>& ops) {
        histories++;
        std::unique_ptr<PositionScorer> sc(new PositionScorer());
        std::string hist = "[";
        for (size_t i = 0; i < ops.size(); ++i) hist += (i ? "," : "") + jstr(ops[i]);
        hist += "]";
        for (size_t i = 0; i < ops.size(); ++i)
        {
            if (ops[i] == "clear") { sc->clear(); continue; }
            Position p(ops[i]);
            long v = (long)sc->score(p), vf = fresh_value(ops[i]);
            evals++;
            if (v != vf)
            {
                bad++;
                fprintf(out, "{\"prop\":\"C14\",\"kind\":\"cache_not_transparent\",\"history_kind\":%s,\"detail\":{\"history\":%s,\"step\":%zu,\"fen\":%s,\"value\":%ld,\"fresh\":%ld,\"pawnless\":%s}}\n",
                        jstr(kind).c_str(), hist.c_str(), i, jstr(ops[i]).c_str(), v, vf, jbool(p.pieces(PAWN) == 0).c_str());
            }
        }
    };
    const char* pawnless[] = {"r3k3/8/8/8/8/8/8/R3K2R w - - 0 1", "4k3/8/8/8/8/8/8/QQ2K3 b - - 0 1", "1nb1k3/8/8/8/8/8/8/2BNK2R w - - 0 1"};
    for (auto& s0 : zero_slot)
        for (auto pl : pawnless)
        {
            run("stale0", {s0, "clear", pl});
            run("stale0_noclear", {pl, s0, pl});
            run("reeval", {s0, "clear", s0, pl, s0});
        }
    for (auto& c : collisions)
    {
        run("collide", {c.first, c.second, c.first, c.second});
        run("collide_clear", {c.first, "clear", c.second, c.first});
    }
    lo32.clear();
    hi32.clear();
    for (auto& c : part_lo) { run("partial_key_low32", {c.first, c.second, c.first}); run("partial_key_low32", {c.second, c.first}); }
    for (auto& c : part_hi) { run("partial_key_high32", {c.first, c.second, c.first}); run("partial_key_high32", {c.second, c.first}); }
    fprintf(out, "{\"summary\":true,\"partial_low32\":%zu,\"partial_high32\":%zu,\"zero_slot_structures\":%zu,\"collisions\":%zu,\"histories\":%ld,\"evaluations\":%ld,\"mismatches\":%ld,\"search_tries\":%ld,\"sample_zero\":%s,\"sample_collision\":%s}\n",
            part_lo.size(), part_hi.size(), zero_slot.size(), collisions.size(), histories, evals, bad, tries, jstr(zero_slot.empty() ? "" : zero_slot[0]).c_str(),
            jstr(collisions.empty() ? "" : collisions[0].first + " | " + collisions[0].second).c_str());
    fclose(out);
    return 0;
}

}  // namespace vh
