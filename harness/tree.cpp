// tree-runs: observations of the search tree for the SearchTree conformance monitor (spec/TreeTrace.tla).
//
// A real Search::go() runs in-process with std::cout captured.  The hook sink writes one line per node entry
// ("node"/"qnode" + "window" points: kind, ply, depth, window, the FEN of the position the search stands on) and one per
// node exit ("exit"/"qexit": ply, returned value, whether the stop flag was up).  Recording starts at the first root
// visit of iteration `from_iter` and the search is stopped once `cap` lines are written (the unwinding is recorded too).
//   {"e":"go","from":fen0,"moves":[...],"fen":root,"depth":d,"tt":"fresh|warm"}
//   {"e":"n","q":0|1,"p":ply,"d":depth,"a":alpha,"b":beta,"fen":...}
//   {"e":"x","q":0|1,"p":ply,"v":value,"st":0|1}
//   {"e":"end","lines":n}
// plan file: fen | moves | depth | from_iter | cap | tt
#include "common.h"

namespace vh
{
Uci& the_uci();

namespace
{
struct TreeRec
{
    FILE* o = nullptr;
    Search* target = nullptr;
    long lines = 0, cap = 0, from_iter = 1, iter = 0;
    bool recording = false, stop_sent = false;
    int pend_q = 0;
    int64_t pend_ply = 0, pend_depth = 0;
    long total_events = 0;
    std::chrono::steady_clock::time_point t0;
    long wall_ms = 20000;      // a search that does not get to the recorded part (or out of it) in this time is stopped
    int root_open = 0;         // activations of search() at ply 0 that have not returned (internal deepening nests them)
    bool evict = false;        // tt = "evict": every table entry is lost when the recorded iteration starts (replacement can evict any entry at any time)
} TR;

void sink_t(const char* id, int64_t a, int64_t b)
{
    TR.total_events++;
    if ((TR.total_events & 4095) == 0 && !TR.stop_sent &&
        std::chrono::duration_cast<std::chrono::milliseconds>(std::chrono::steady_clock::now() - TR.t0).count() > TR.wall_ms)
    {
        TR.stop_sent = true;
        TR.target->stop();
    }
    if (!strcmp(id, "iter_start"))
    {
        TR.iter = a;
        if (a >= TR.from_iter && !TR.stop_sent)
        {
            if (TR.evict && !TR.recording) the_uci().ttable.clear();
            TR.recording = true;
        }
        return;
    }
    if (!TR.recording) return;
    if (!strcmp(id, "node") || !strcmp(id, "qnode"))
    {
        TR.pend_q = id[0] == 'q';
        TR.pend_ply = a;
        TR.pend_depth = b;
        return;
    }
    if (!strcmp(id, "window"))
    {
        fprintf(TR.o, "{\"e\":\"n\",\"q\":%d,\"p\":%ld,\"d\":%ld,\"a\":%ld,\"b\":%ld,\"fen\":%s}\n", TR.pend_q, (long)TR.pend_ply, (long)TR.pend_depth,
                (long)a, (long)b, jstr(TR.target->_position.fen()).c_str());
        TR.lines++;
        if (TR.pend_ply == 0 && !TR.pend_q) TR.root_open++;
    }
    else if (!strcmp(id, "exit") || !strcmp(id, "qexit"))
    {
        fprintf(TR.o, "{\"e\":\"x\",\"q\":%d,\"p\":%ld,\"v\":%ld,\"st\":%d}\n", id[0] == 'q', (long)a, (long)b, TR.target->stop_search.load() ? 1 : 0);
        TR.lines++;
        if (a == 0 && id[0] != 'q' && --TR.root_open <= 0 && TR.stop_sent) TR.recording = false;   // the (outermost) root has been left after the stop
    }
    else
        return;
    if (TR.lines >= TR.cap && !TR.stop_sent)
    {
        TR.stop_sent = true;
        TR.target->stop();
    }
}
}   // namespace

int cmd_tree_runs(const Args& a)
{
    init_engine();
    std::vector<std::string> plan = read_lines(a.s("plan"));
    FILE* o = fopen(a.s("out").c_str(), "w");
    if (!o) return 3;
    long runs = 0;
    for (auto& line : plan)
    {
        std::vector<std::string> f;
        {
            std::string cur;
            for (char c : line) { if (c == '|') { f.push_back(cur); cur.clear(); } else cur += c; }
            f.push_back(cur);
        }
        if (f.size() < 6) continue;
        auto trim = [](std::string s) { while (!s.empty() && s.back() == ' ') s.pop_back(); while (!s.empty() && s[0] == ' ') s.erase(0, 1); return s; };
        std::string fen0 = trim(f[0]), tt = trim(f[5]);
        std::vector<std::string> moves;
        { std::istringstream is(f[1]); std::string m; while (is >> m) moves.push_back(m); }
        int depth = atoi(f[2].c_str());
        Position p(fen0);
        if (moves.size() == 1 && moves[0] == "@shuffle")
        {
            // a there-and-back preamble (both sides move a piece out and back): the root has occurred before
            moves.clear();
            auto reversible = [](Position& q, Move m) {
                return castling(m) == NO_CASTLING && promotion(m) == NO_PIECE_KIND && q.move_is_quiet(m) && make_piece_kind(q.piece_at(from(m))) != PAWN;
            };
            MoveVec a1;
            a1.gen(p);
            bool done = false;
            for (int i = 0; i < a1.n && !done; ++i)
            {
                if (!reversible(p, a1.list[i])) continue;
                std::string u1 = p.uci(a1.list[i]), r1 = u1.substr(2, 2) + u1.substr(0, 2);
                Position q1 = p;
                q1.do_move(a1.list[i]);
                MoveVec a2;
                a2.gen(q1);
                for (int j = 0; j < a2.n && !done; ++j)
                {
                    if (!reversible(q1, a2.list[j])) continue;
                    std::string u2 = q1.uci(a2.list[j]), r2 = u2.substr(2, 2) + u2.substr(0, 2);
                    Position q2 = q1;
                    q2.do_move(a2.list[j]);
                    Move b1 = q2.parse_uci(r1);
                    MoveVec a3;
                    a3.gen(q2);
                    if (std::find(a3.list, a3.list + a3.n, b1) == a3.list + a3.n) continue;
                    Position q3 = q2;
                    q3.do_move(b1);
                    Move b2 = q3.parse_uci(r2);
                    MoveVec a4;
                    a4.gen(q3);
                    if (std::find(a4.list, a4.list + a4.n, b2) == a4.list + a4.n) continue;
                    moves = {u1, u2, r1, r2};
                    done = true;
                }
            }
        }
        for (auto& m : moves) p.do_move(p.parse_uci(m));
        tt::TTable& table = the_uci().ttable;
        if (tt == "fresh") { table.clear(); the_uci().scorer.clear(); }
        table.updateEpoch(1);
        Limits lim;
        lim.depth = depth;
        std::string hist = "[";
        for (size_t i = 0; i < moves.size(); ++i) hist += (i ? "," : "") + jstr(moves[i]);
        hist += "]";
        fprintf(o, "{\"e\":\"go\",\"from\":%s,\"moves\":%s,\"fen\":%s,\"depth\":%d,\"tt\":%s}\n", jstr(fen0).c_str(), hist.c_str(), jstr(p.fen()).c_str(), depth, jstr(tt).c_str());
        TR = TreeRec();
        TR.o = o;
        TR.from_iter = atol(f[3].c_str());
        TR.cap = atol(f[4].c_str());
        TR.t0 = std::chrono::steady_clock::now();
        TR.evict = tt == "evict";
        std::ostringstream cap;
        auto* old = std::cout.rdbuf(cap.rdbuf());
        {
            Search s(p, lim, the_uci().scorer, table);
            TR.target = &s;
            engine::verif::sink.store(sink_t);
            s.go();
            engine::verif::sink.store(nullptr);
            TR.target = nullptr;
        }
        std::cout.rdbuf(old);
        fprintf(o, "{\"e\":\"end\",\"lines\":%ld}\n", TR.lines);
        runs++;
    }
    fclose(o);
    printf("{\"runs\":%ld}\n", runs);
    return 0;
}
}   // namespace vh
