// order-replay: observations of MoveOrderer::order_moves for the MoveOrder conformance monitor (spec/OrderTrace.tla).
//
// Two sources of ordering contexts:
//   synthetic  positions from random games / sparse material / attack setups with a drawn context: pv move, tt entry,
//              killers, previous move, history and counter-move scores (also beyond the clamp)
//   warm       a real depth-limited Search is run first and the orderer OF THAT SEARCH is then called on the root and along
//              its principal variation with the tables and stack records the search left behind
// Every line carries the input list, the output list, the engine's scores of the output list and the context the spec
// needs to recompute every score: {fen, in, out, sc, pv, tt, k1, k2, prevto, q}
#include "common.h"

namespace vh
{
Uci& the_uci();
std::string random_material_fen(std::mt19937_64& rng, int kind);
std::string random_attack_fen(std::mt19937_64& rng);

namespace
{
std::string uci_or_empty(const Position& p, Move m, const MoveVec& mv)
{
    for (int i = 0; i < mv.n; ++i)
        if (mv.list[i] == m) return p.uci(m);
    return "";   // not a move of this position: cannot match any listed move
}

void observe(FILE* o, const char* src, Position& p, MoveOrderer& ord, tt::TTable& tt, HistoryScore& hist, Info* info, long* n)
{
    MoveVec in;
    in.gen(p);
    if (in.n == 0) return;
    bool found = false;
    auto e = tt.probe(p.hash(), found);
    Move ttm = found ? e->value.move : NO_MOVE;
    Move pvm = info->_pv_list_length > 0 ? info->_pv_list[0] : NO_MOVE;
    std::string q = "[";
    for (int i = 0; i < in.n; ++i)
    {
        Move m = in.list[i];
        Piece moved = castling(m) == NO_CASTLING ? p.piece_at(from(m)) : NO_PIECE;
        long h = hist[p.color()][from(m)][to(m)];
        long c = (*(info - 1)->_counter_move)[moved][to(m)];
        q += (i ? "," : "") + std::to_string(h + c);
    }
    q += "]";
    MoveVec out = in;
    ord.order_moves(p, out.list, out.list + out.n, info);
    std::string sc = "[";
    for (int i = 0; i < out.n; ++i) sc += (i ? "," : "") + std::to_string(ord._scores[i]);
    sc += "]";
    std::string outs = "[";
    for (int i = 0; i < out.n; ++i)
    {
        // an output entry that is not one of the input moves is printed by its raw word so that the monitor sees it
        bool known = false;
        for (int j = 0; j < in.n; ++j) known = known || in.list[j] == out.list[i];
        outs += (i ? "," : "") + (known ? jstr(p.uci(out.list[i])) : jstr("#" + std::to_string(out.list[i])));
    }
    outs += "]";
    fprintf(o, "{\"e\":\"order\",\"src\":\"%s\",\"fen\":%s,\"in\":%s,\"out\":%s,\"sc\":%s,\"pv\":%s,\"tt\":%s,\"k1\":%s,\"k2\":%s,\"prevto\":%d,\"q\":%s}\n",
            src, jstr(p.fen()).c_str(), moves_json(p, in).c_str(), outs.c_str(), sc.c_str(), jstr(uci_or_empty(p, pvm, in)).c_str(),
            jstr(uci_or_empty(p, ttm, in)).c_str(), jstr(uci_or_empty(p, info->_killer_moves[0], in)).c_str(),
            jstr(uci_or_empty(p, info->_killer_moves[1], in)).c_str(), (int)to((info - 1)->_current_move), q.c_str());
    (*n)++;
}
}   // namespace

int cmd_order_replay(const Args& a)
{
    init_engine();
    std::vector<std::string> roots = read_lines(a.s("roots"));
    const int shards = (int)a.i("shards", 16);
    const long nsyn = a.i("synthetic", 3000), nwarm = a.i("warm", 40);
    std::mt19937_64 rng(a.i("seed", 1));
    std::vector<FILE*> f;
    for (int i = 0; i < shards; ++i) f.push_back(fopen((a.s("out-prefix") + "." + std::to_string(i) + ".ndjson").c_str(), "w"));
    tt::TTable& tt = the_uci().ttable;
    long n = 0;

    // ---- synthetic contexts
    {
        auto hist = std::make_unique<HistoryScore>();
        auto cmt = std::make_unique<PieceHistory>();
        auto stack = std::make_unique<StackInfo>();
        MoveOrderer ord(tt, *hist);
        std::vector<std::string> fens;
        for (auto& r : roots) fens.push_back(r);
        while ((long)fens.size() < nsyn)
        {
            int kind = int(rng() % 4);
            if (kind == 0) { std::string s = random_material_fen(rng, int(rng() % 1000)); if (!s.empty()) fens.push_back(s); continue; }
            if (kind == 1) { std::string s = random_attack_fen(rng); if (!s.empty()) fens.push_back(s); continue; }
            Position p(roots[rng() % roots.size()]);
            int len = 1 + int(rng() % 60);
            for (int ply = 0; ply < len; ++ply)
            {
                MoveVec mv;
                mv.gen(p);
                if (mv.n == 0 || p.is_draw()) break;
                Move m = mv.list[rng() % uint64_t(mv.n)];
                if (rng() % 2)
                    for (int t = 0; t < mv.n; ++t) { Move c = mv.list[rng() % uint64_t(mv.n)]; if (p.move_is_capture(c)) { m = c; break; } }
                p.do_move(m);
                if (rng() % 6 == 0) fens.push_back(p.fen());
            }
        }
        for (auto& fe : fens)
        {
            Position p(fe);
            MoveVec mv;
            mv.gen(p);
            if (mv.n == 0) continue;
            auto pick = [&]() { return mv.list[rng() % uint64_t(mv.n)]; };
            Info* info = &(*stack)[4];
            *info = Info();
            *(info - 1) = Info();
            (info - 1)->_counter_move = cmt.get();
            // previous move: its target square decides "recapture"; often the target of one of our captures
            Move prev = create_move(Square(rng() % 64), Square(rng() % 64));
            if (rng() % 2)
                for (int t = 0; t < mv.n; ++t) { Move c = pick(); if (p.move_is_capture(c) && castling(c) == NO_CASTLING) { prev = create_move(Square(rng() % 64), to(c)); break; } }
            (info - 1)->_current_move = rng() % 8 ? prev : NO_MOVE;
            if (rng() % 3 == 0) { info->_pv_list[0] = pick(); info->_pv_list_length = 1; }
            if (rng() % 2) info->_killer_moves[0] = pick();
            if (rng() % 2) info->_killer_moves[1] = pick();
            if (rng() % 2) tt.insert(p.hash(), tt::TTEntry(0, 1, tt::Flag::kEXACT, rng() % 6 ? pick() : create_move(Square(rng() % 64), Square(rng() % 64))));
            // history and counter-move scores for some of the moves; every so often beyond the quiet clamp
            for (int t = 0; t < mv.n; ++t)
            {
                Move m = mv.list[t];
                if (rng() % 2) continue;
                int big = rng() % 16 == 0 ? 1999000 + int(rng() % 2000) : int(rng() % 5000);
                (*hist)[p.color()][from(m)][to(m)] = big;
                Piece moved = castling(m) == NO_CASTLING ? p.piece_at(from(m)) : NO_PIECE;
                (*cmt)[moved][to(m)] = int(rng() % 3000);
            }
            observe(f[n % shards], "synthetic", p, ord, tt, *hist, info, &n);
            for (int t = 0; t < mv.n; ++t)
            {
                Move m = mv.list[t];
                (*hist)[p.color()][from(m)][to(m)] = 0;
                Piece moved = castling(m) == NO_CASTLING ? p.piece_at(from(m)) : NO_PIECE;
                (*cmt)[moved][to(m)] = 0;
            }
        }
    }

    // ---- warm contexts: the orderer of a real search, after that search
    {
        auto cmt0 = std::make_unique<PieceHistory>();
        for (long k = 0; k < nwarm; ++k)
        {
            Position p(roots[rng() % roots.size()]);
            int len = int(rng() % 30);
            for (int ply = 0; ply < len; ++ply)
            {
                MoveVec mv;
                mv.gen(p);
                if (mv.n == 0 || p.is_draw()) break;
                p.do_move(mv.list[rng() % uint64_t(mv.n)]);
            }
            MoveVec mv;
            mv.gen(p);
            if (mv.n == 0 || p.is_draw()) continue;
            Limits lim;
            lim.depth = 4 + int(rng() % 3);
            std::ostringstream cap;
            auto* old = std::cout.rdbuf(cap.rdbuf());
            auto s = std::make_unique<Search>(p, lim, the_uci().scorer, tt);
            s->go();
            std::cout.rdbuf(old);
            // along the line the search itself considers best, with the stack records it left
            Position q = p;
            for (int ply = 0; ply < 6; ++ply)
            {
                MoveVec qm;
                qm.gen(q);
                if (qm.n == 0 || q.is_draw()) break;
                Info* info = &s->_stack_info[2 + ply];
                if ((info - 1)->_counter_move == nullptr) (info - 1)->_counter_move = cmt0.get();
                observe(f[n % shards], "warm", q, s->_move_orderer, tt, s->_history_score, info, &n);
                bool found = false;
                auto e = tt.probe(q.hash(), found);
                Move next = NO_MOVE;
                if (found)
                    for (int i = 0; i < qm.n; ++i) if (qm.list[i] == e->value.move) next = e->value.move;
                if (next == NO_MOVE) next = qm.list[rng() % uint64_t(qm.n)];
                q.do_move(next);
            }
        }
    }
    for (auto h : f) fclose(h);
    fprintf(stderr, "order-replay: %ld observations\n", n);
    return 0;
}
}   // namespace vh
