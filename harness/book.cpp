// Polyglot keys (C18) and book files (C19): spec -> code replays and the key trace driver.
#include "common.h"

namespace vh
{
Uci& the_uci();

// input lines: {"fen":F,"key":hex,...} computed by Polyglot.tla
int cmd_polyglot_replay(const Args& a)
{
    init_engine();
    std::ifstream in(a.s("in"));
    FILE* out = fopen(a.s("out", "/dev/stdout").c_str(), "w");
    std::string line;
    long n = 0, bad = 0, ep = 0;
    while (std::getline(in, line))
    {
        if (line.find("\"fen\"") == std::string::npos) continue;
        std::string fen = jget(line, "fen"), key = jget(line, "key");
        Position p(fen);
        std::string got = hex64(PolyglotBook::hash(p));
        n++;
        if (p.enpassant_square() != NO_SQUARE) ep++;
        if (got != key || p.fen() != fen)
        {
            bad++;
            fprintf(out, "{\"prop\":\"C18\",\"kind\":\"book_key\",\"fen\":%s,\"detail\":{\"engine\":%s,\"spec\":%s,\"ep\":%s,\"ep_counts\":%s,\"engine_fen\":%s}}\n",
                    jstr(fen).c_str(), jstr(got).c_str(), jstr(key).c_str(), jget(line, "ep").c_str(), jget(line, "epcounts").c_str(), jstr(p.fen()).c_str());
        }
    }
    fprintf(out, "{\"summary\":true,\"positions\":%ld,\"mismatches\":%ld,\"with_ep\":%ld}\n", n, bad, ep);
    fclose(out);
    return 0;
}

// code -> spec: positions along engine games with the engine's book key
int cmd_polyglot_walk(const Args& a)
{
    init_engine();
    std::vector<std::string> roots = read_lines(a.s("roots"));
    const int games = (int)a.i("games", 16), maxply = (int)a.i("maxply", 80), shards = (int)a.i("shards", 16);
    std::mt19937_64 rng(a.i("seed", 1));
    std::vector<FILE*> f;
    for (int i = 0; i < shards; ++i) f.push_back(fopen((a.s("out", ".") + "/" + a.s("stem", "pg") + "." + std::to_string(i) + ".ndjson").c_str(), "w"));
    long n = 0;
    for (int g = 0; g < games; ++g)
    {
        FILE* o = f[g % shards];
        Position p(roots[rng() % roots.size()]);
        for (int ply = 0; ply < maxply; ++ply)
        {
            fprintf(o, "{\"fen\":%s,\"key\":%s}\n", jstr(p.fen()).c_str(), jstr(hex64(PolyglotBook::hash(p))).c_str());
            n++;
            MoveVec mv;
            mv.gen(p);
            if (mv.n == 0 || p.half_moves() >= 100) break;
            Move m = mv.list[rng() % uint64_t(mv.n)];
            // prefer double pawn pushes: en-passant squares are what the key is delicate about
            if (rng() % 2)
                for (int i = 0; i < mv.n; ++i)
                {
                    Move c = mv.list[(i + ply) % mv.n];
                    if (castling(c) == NO_CASTLING && make_piece_kind(p.piece_at(from(c))) == PAWN && std::abs(int(to(c)) - int(from(c))) == 16) { m = c; break; }
                }
            p.do_move(m);
        }
    }
    for (auto h : f) fclose(h);
    fprintf(stderr, "polyglot-walk: %ld positions\n", n);
    return 0;
}

// ---------------------------------------------------------------- book files
// input (flat text written by the runner from the BookFiles.tla lines):
//   FILE <path> <total_records> <nkeys>
//   ENTRY <fen with _ for spaces> <keyhex> <n>  then n times: <from> <to> <promokind> <weight> <decoded uci>
//   BEST <k> <uci>...        PICK <sum> <uci for residue 0> ... <uci for residue sum-1>
//   END
int cmd_book_replay(const Args& a)
{
    init_engine();
    std::ifstream in(a.s("in"));
    FILE* out = fopen(a.s("out", "/dev/stdout").c_str(), "w");
    const bool via_uci = a.i("uci", 0) != 0;
    std::string tok;
    long files = 0, bad = 0, lookups = 0, residues = 0, uci_runs = 0;
    std::string path;
    long total = 0, nkeys = 0;
    std::unique_ptr<PolyglotBook> book;
    auto report = [&](const std::string& kind, const std::string& detail) {
        bad++;
        fprintf(out, "{\"prop\":\"C19\",\"kind\":%s,\"file\":%s,\"detail\":%s}\n", jstr(kind).c_str(), jstr(path).c_str(), detail.c_str());
    };
    std::ostringstream cap;
    while (in >> tok)
    {
        if (tok == "FILE")
        {
            in >> path >> total >> nkeys;
            files++;
            book.reset(new PolyglotBook(path, size_t(1234 + files)));
            long have = 0;
            for (auto& kv : book->_hashmap) have += (long)kv.second.size();
            if ((long)book->_hashmap.size() != nkeys || have != total)
                report("loaded_records", "{\"file_records\":" + std::to_string(total) + ",\"file_keys\":" + std::to_string(nkeys) + ",\"loaded_records\":" +
                                             std::to_string(have) + ",\"loaded_keys\":" + std::to_string(book->_hashmap.size()) + "}");
        }
        else if (tok == "ENTRY")
        {
            std::string fen, keyhex;
            int n;
            in >> fen >> keyhex >> n;
            for (auto& c : fen) if (c == '_') c = ' ';
            uint64_t key = strtoull(keyhex.c_str(), nullptr, 16);
            struct Rec { int f, t, pk, w; std::string dec; };
            std::vector<Rec> recs(n);
            for (auto& r : recs) in >> r.f >> r.t >> r.pk >> r.w >> r.dec;
            std::string t2;
            int nb;
            in >> t2 >> nb;
            std::set<std::string> best;
            for (int i = 0; i < nb; ++i) { std::string u; in >> u; best.insert(u); }
            int sum;
            in >> t2 >> sum;
            std::vector<std::string> pick;
            std::vector<long> cum;
            if (t2 == "PICK") { pick.resize(sum); for (auto& u : pick) in >> u; }
            else { cum.resize(sum); for (auto& c : cum) in >> c; sum = cum.empty() ? 0 : (int)cum.back(); }   // CUM: cumulative weights
            in >> t2;  // END
            Position p(fen);
            if (hex64(PolyglotBook::hash(p)) != keyhex) report("key_of_position", "{\"fen\":" + jstr(fen) + "}");
            if (!book->contains(key)) { report("key_missing", "{\"key\":" + jstr(keyhex) + "}"); continue; }
            auto& lst = book->_hashmap[key];
            bool same = (int)lst.size() == n;
            for (int i = 0; same && i < n; ++i)
                same = (int)from(lst[i].first) == recs[i].f && (int)to(lst[i].first) == recs[i].t && (int)promotion(lst[i].first) == recs[i].pk &&
                       lst[i].second == recs[i].w;
            if (!same)
            {
                std::string got = "[";
                for (auto& wm : lst) got += "[" + std::to_string((int)from(wm.first)) + "," + std::to_string((int)to(wm.first)) + "," + std::to_string((int)promotion(wm.first)) + "," + std::to_string(wm.second) + "],";
                if (got.back() == ',') got.pop_back();
                report("record_list", "{\"fen\":" + jstr(fen) + ",\"expected_n\":" + std::to_string(n) + ",\"loaded\":" + got + "]}");
            }
            // best policy
            std::string b = p.uci(book->get_best_move(key, p));
            lookups++;
            if (!best.count(b)) report("best_policy", "{\"fen\":" + jstr(fen) + ",\"returned\":" + jstr(b) + "}");
            // random policy: the decision function for every sample residue
            std::vector<bool> seen(pick.empty() ? 0 : sum, false);
            int left = pick.empty() ? 1 : sum;
            const long max_calls = pick.empty() ? 3000 : 400L * sum;
            for (long it = 0; it < max_calls && left > 0; ++it)
            {
                auto g = book->_gen;
                auto d = book->_dist;
                unsigned long r = d(g);
                // the engine's own sum of weights (over what it loaded) defines the residue it uses
                long esum = 0;
                for (auto& wm : lst) esum += wm.second;
                if (esum <= 0) break;
                int sample = int(r % (unsigned long)esum);
                std::string u = p.uci(book->get_random_move(key, p));
                lookups++;
                if (esum != sum) continue;   // loaded list differs: already reported
                std::string expect;
                if (!pick.empty())
                {
                    if (!seen[sample]) { seen[sample] = true; left--; residues++; }
                    expect = pick[sample];
                }
                else
                {
                    size_t k = 0;
                    while (k < cum.size() && !(sample < cum[k])) ++k;    // interval semantics on the spec's cumulative weights
                    expect = k < recs.size() ? recs[k].dec : "?";
                    residues++;
                }
                if (u != expect)
                    report("random_policy", "{\"fen\":" + jstr(fen) + ",\"sample\":" + std::to_string(sample) + ",\"sum\":" + std::to_string(sum) + ",\"returned\":" + jstr(u) +
                                                ",\"expected\":" + jstr(expect) + "}");
            }
            // through the UCI front end: setoption + position + go
            if (via_uci)
            {
                Uci& uci = the_uci();
                for (const char* pol : {"best", "random"})
                {
                    std::ostringstream capo;
                    auto* old = std::cout.rdbuf(capo.rdbuf());
                    { std::istringstream is(std::string("name Polyglot Book value ") + path); uci.setoption_command(is); }
                    { std::istringstream is(std::string("name Polyglot Sample value ") + pol); uci.setoption_command(is); }
                    { std::istringstream is("fen " + fen); uci.position_command(is); }
                    // the book branch of start_searching, on this thread (the Search object is not needed for it)
                    { Limits lim; lim.depth = 1; uci.search = std::make_shared<Search>(uci.position, lim, uci.scorer, uci.ttable); }
                    start_searching(&uci);
                    { std::istringstream is("name Polyglot Book value"); uci.setoption_command(is); }
                    std::cout.rdbuf(old);
                    uci_runs++;
                    std::string o = capo.str();
                    size_t q = o.find("bestmove ");
                    std::string bm = q == std::string::npos ? "" : o.substr(q + 9, o.find('\n', q) - q - 9);
                    bool ok = false;
                    for (auto& r : recs) if (r.dec == bm && (std::string(pol) == "random" ? r.w > 0 : best.count(bm) > 0)) ok = true;
                    if (!ok) report("uci_book_move", "{\"fen\":" + jstr(fen) + ",\"policy\":" + jstr(pol) + ",\"bestmove\":" + jstr(bm) + "}");
                }
            }
        }
    }
    fprintf(out, "{\"summary\":true,\"files\":%ld,\"lookups\":%ld,\"residues\":%ld,\"uci_runs\":%ld,\"mismatches\":%ld}\n", files, lookups, residues, uci_runs, bad);
    fclose(out);
    return 0;
}

}  // namespace vh
