// dispatch of the remaining harness commands (grows with the framework)
#include "common.h"
namespace vh { int cmd_tree_runs(const Args&); }
int vh_dispatch_extra(const std::string& cmd, const vh::Args& a)
{
    if (cmd == "tree-runs") return vh::cmd_tree_runs(a);
    fprintf(stderr, "unknown command %s\n", cmd.c_str());
    return 2;
}
