// dispatch of the remaining harness commands (grows with the framework)
#include "common.h"
int vh_dispatch_extra(const std::string& cmd, const vh::Args&)
{
    fprintf(stderr, "unknown command %s\n", cmd.c_str());
    return 2;
}
