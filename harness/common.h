// Common prelude of the verification harness: engine headers with private
// state readable, JSON string helpers, move list helpers, RNG.
#ifndef VH_COMMON_H_
#define VH_COMMON_H_

#include <algorithm>
#include <array>
#include <atomic>
#include <cassert>
#include <chrono>
#include <cinttypes>
#include <cmath>
#include <condition_variable>
#include <cstdint>
#include <cstdio>
#include <cstdlib>
#include <cstring>
#include <deque>
#include <fstream>
#include <functional>
#include <iostream>
#include <map>
#include <memory>
#include <mutex>
#include <optional>
#include <random>
#include <regex>
#include <set>
#include <sstream>
#include <string>
#include <thread>
#include <unordered_map>
#include <vector>

#define private public
#define protected public
#include "endgame.h"
#include "movegen.h"
#include "polyglot.h"
#include "position.h"
#include "score.h"
#include "search.h"
#include "time_manager.h"
#include "transposition_table.h"
#include "uci.h"
#include "zobrist_hash.h"
#undef private
#undef protected
#include "verif_hook.h"

namespace vh
{
using namespace engine;

inline void init_engine()
{
    static bool done = false;
    if (done) return;
    move_bitboards::init();
    zobrist::init();
    bitbase::init();
    endgame::init();
    done = true;
}

inline std::string jstr(const std::string& s)
{
    std::string o = "\"";
    for (char c : s)
    {
        if (c == '"' || c == '\\') { o += '\\'; o += c; }
        else if (c == '\n') o += "\\n";
        else if ((unsigned char)c < 0x20) { char b[8]; snprintf(b, sizeof b, "\\u%04x", c); o += b; }
        else o += c;
    }
    return o + "\"";
}
inline std::string jbool(bool b) { return b ? "true" : "false"; }
inline std::string hex64(uint64_t v)
{
    char b[24];
    snprintf(b, sizeof b, "%016" PRIx64, v);
    return b;
}

struct MoveVec
{
    Move list[MAX_MOVES];
    int n = 0;
    void gen(const Position& p)
    {
        Move* e = generate_moves(p, p.color(), list);
        n = int(e - list);
    }
};

inline std::string moves_json(const Position& p, const MoveVec& mv)
{
    std::string s = "[";
    for (int i = 0; i < mv.n; ++i)
    {
        if (i) s += ",";
        s += jstr(p.uci(mv.list[i]));
    }
    return s + "]";
}

// 64-character pictures of the redundant board representations
inline std::string piece_list_picture(const Position& p)
{
    const char* pc = ".PNBRQKpnbrqk";
    std::string s(64, '.');
    for (int piece = 1; piece <= 12; ++piece)
        for (int i = 0; i < p._piece_count[piece] && i < 10; ++i)
        {
            uint32_t sq = p._piece_position[piece][i];
            if (sq < 64) s[sq] = (s[sq] == '.') ? pc[piece] : '?';
        }
    return s;
}
inline std::string bitboard_picture(const Position& p)
{
    const char* pc = ".PNBRQKpnbrqk";
    std::string s(64, '.');
    for (int c = 0; c < 2; ++c)
        for (int k = 1; k <= 6; ++k)
        {
            Bitboard bb = p._by_color_bb[c] & p._by_piece_kind_bb[k];
            for (int sq = 0; sq < 64; ++sq)
                if (bb & (1ULL << sq)) s[sq] = (s[sq] == '.') ? pc[k + 6 * c] : '?';
        }
    return s;
}

struct Args
{
    std::map<std::string, std::string> kv;
    Args(int argc, char** argv, int from)
    {
        for (int i = from; i < argc; ++i)
        {
            std::string a = argv[i];
            if (a.rfind("--", 0) == 0)
            {
                std::string k = a.substr(2);
                if (i + 1 < argc && std::string(argv[i + 1]).rfind("--", 0) != 0) kv[k] = argv[++i];
                else kv[k] = "1";
            }
        }
    }
    std::string s(const std::string& k, const std::string& d = "") const
    {
        auto it = kv.find(k);
        return it == kv.end() ? d : it->second;
    }
    long i(const std::string& k, long d) const
    {
        auto it = kv.find(k);
        return it == kv.end() ? d : atol(it->second.c_str());
    }
    bool has(const std::string& k) const { return kv.count(k) > 0; }
};

inline std::vector<std::string> read_lines(const std::string& path)
{
    std::vector<std::string> v;
    std::ifstream f(path);
    std::string line;
    while (std::getline(f, line))
    {
        while (!line.empty() && (line.back() == '\r' || line.back() == ' ')) line.pop_back();
        if (!line.empty() && line[0] != '#') v.push_back(line);
    }
    return v;
}

// minimal JSON field extraction for the flat replay records the spec emits
inline std::string jget(const std::string& line, const std::string& key)
{
    std::string pat = "\"" + key + "\":";
    size_t p = line.find(pat);
    if (p == std::string::npos) return "";
    p += pat.size();
    while (p < line.size() && line[p] == ' ') ++p;
    if (line[p] == '"')
    {
        std::string o;
        for (size_t i = p + 1; i < line.size(); ++i)
        {
            if (line[i] == '\\' && i + 1 < line.size()) { o += line[++i]; continue; }
            if (line[i] == '"') break;
            o += line[i];
        }
        return o;
    }
    if (line[p] == '[')
    {
        int depth = 0;
        size_t i = p;
        for (; i < line.size(); ++i)
        {
            if (line[i] == '[') depth++;
            if (line[i] == ']' && --depth == 0) break;
        }
        return line.substr(p, i - p + 1);
    }
    size_t e = line.find_first_of(",}", p);
    return line.substr(p, e - p);
}
inline std::vector<std::string> jarr_str(const std::string& arr)
{
    std::vector<std::string> v;
    size_t i = 0;
    while ((i = arr.find('"', i)) != std::string::npos)
    {
        size_t j = arr.find('"', i + 1);
        v.push_back(arr.substr(i + 1, j - i - 1));
        i = j + 1;
    }
    return v;
}
inline std::vector<long> jarr_int(const std::string& arr)
{
    std::vector<long> v;
    const char* p = arr.c_str();
    while (*p)
    {
        if ((*p >= '0' && *p <= '9') || *p == '-')
        {
            char* e;
            v.push_back(strtol(p, &e, 10));
            p = e;
        }
        else ++p;
    }
    return v;
}

}  // namespace vh
#endif
