// nearmate-pool: positions NEAR a forced mate, where an unsound shortcut of the search turns "almost mate" into an announcement.
// Generator only (no verdict relies on it): every announcement the engine makes on these positions is decided by the mate oracle
// like any other.  Output format = the `pool` command's (fen|moves|n|check|mate1|src).
//
//   refuted   (src "nm-refuted", "nm-refuted-after")  the side to move has a checking move after which the defender is mated
//             within two moves by every evasion EXCEPT at least one quiet evasion that holds: the root before the checking move
//             and the position after it.  A search that looks at only some of the evasions sees a mate that is not there.
//   zugzwang  (src "nm-zz", "nm-zz-1", "nm-zz-2")  sparse endgames in which the side to move S has a piece, cannot force mate
//             within n+1 moves, but WOULD mate within n if it could pass (the opponent to move is doomed): a position in
//             which "even after a null move I still mate" is false.  Emitted with predecessors one ply (opponent to move,
//             few legal moves) and two plies (S to move) earlier, found by un-moving pieces and verifying with the generator.
#include "common.h"

namespace vh
{
int solver_doomed(Position& p, int n, long& budget);
int solver_can_mate(Position& p, int n, long& budget);
extern std::unordered_map<uint64_t, signed char> g_memo;
std::string random_material_fen(std::mt19937_64& rng, int kind);
std::string random_attack_fen(std::mt19937_64& rng);

namespace
{
std::string fen4(const Position& p)
{
    std::string f = p.fen();
    size_t sp = 0;
    for (int i = 0; i < 4; ++i) sp = f.find(' ', sp + 1);
    return f.substr(0, sp);
}
bool mate_in_one(Position& p)
{
    MoveVec mv;
    mv.gen(p);
    for (int i = 0; i < mv.n; ++i)
    {
        MoveInfo mi = p.do_move(mv.list[i]);
        MoveVec r;
        r.gen(p);
        bool mate = r.n == 0 && p.is_in_check(p.color());
        p.undo_move(mv.list[i], mi);
        if (mate) return true;
    }
    return false;
}
void emit(FILE* o, Position& p, const char* src, long* n, bool skip_drawn = true)
{
    MoveVec mv;
    mv.gen(p);
    // (the draw test is the engine's own: it must not decide which of the constructed mates are searched)
    if (mv.n == 0 || (skip_drawn && p.is_draw())) return;
    std::string ms;
    for (int i = 0; i < mv.n; ++i) ms += (i ? " " : "") + p.uci(mv.list[i]);
    fprintf(o, "%s|%s|%d|%d|%d|%s\n", p.fen().c_str(), ms.c_str(), mv.n, (int)p.is_in_check(p.color()), (int)mate_in_one(p), src);
    (*n)++;
}

// sparse endgame with a cornered king: S = K + minor (+ pawn), opponent = K + 1..2 pawns
std::string random_zz_fen(std::mt19937_64& rng)
{
    for (int attempt = 0; attempt < 50; ++attempt)
    {
        char b[64];
        memset(b, 0, sizeof b);
        bool s_white = rng() % 2;
        auto own = [&](char c) { return s_white ? c : (char)tolower(c); };
        auto opp = [&](char c) { return s_white ? (char)tolower(c) : c; };
        int ok_ = 1;
        // opponent king in or next to a corner
        static const int corner[] = {0, 1, 8, 9, 7, 6, 15, 14, 56, 57, 48, 49, 63, 62, 55, 54};
        int ks = corner[rng() % 16];
        b[ks] = opp('K');
        auto place = [&](char ch, int near, int dist) {
            for (int t = 0; t < 200; ++t)
            {
                int s = int(rng() % 64);
                if (b[s]) continue;
                if ((ch == 'P' || ch == 'p') && (s < 8 || s >= 56)) continue;
                if (near >= 0 && std::max(std::abs(s % 8 - near % 8), std::abs(s / 8 - near / 8)) > dist) continue;
                b[s] = ch;
                return true;
            }
            return false;
        };
        ok_ &= place(own('K'), ks, 3);
        static const char* minors[] = {"B", "N", "BP", "NP", "BN", "R", "BB"};
        for (const char* q = minors[rng() % 7]; *q && ok_; ++q) ok_ &= place(own(*q), ks, 4);
        int np = 1 + int(rng() % 2);
        for (int i = 0; i < np && ok_; ++i) ok_ &= place(opp('P'), ks, 4);
        if (!ok_) continue;
        std::string f;
        for (int r = 7; r >= 0; --r)
        {
            int e = 0;
            for (int k = 0; k < 8; ++k)
            {
                char ch = b[r * 8 + k];
                if (!ch) e++;
                else { if (e) f += char('0' + e); e = 0; f += ch; }
            }
            if (e) f += char('0' + e);
            if (r) f += '/';
        }
        f += s_white ? " w - - 0 1" : " b - - 0 1";
        Position p(f);
        if (distance(p.piece_position(W_KING), p.piece_position(B_KING)) <= 1) continue;
        if (p.is_in_check(!p.color()) || p.is_in_check(p.color())) continue;
        return f;
    }
    return "";
}

// predecessors of `z` by a non-capturing, non-pawn move of the side that is NOT to move in z (verified by playing it forward)
std::vector<std::string> predecessors(const Position& z, std::mt19937_64& rng, int max_out, int max_legal = 1000)
{
    std::vector<std::string> res;
    std::string zf = z.fen();
    std::string board = zf.substr(0, zf.find(' '));
    char g[64];
    memset(g, 0, sizeof g);
    {
        int r = 7, f = 0;
        for (char c : board)
        {
            if (c == '/') { r--; f = 0; }
            else if (c >= '1' && c <= '8') f += c - '0';
            else g[r * 8 + f++] = c;
        }
    }
    const bool mover_white = z.color() == BLACK;   // the side that has just moved
    const std::string target = fen4(z);
    std::vector<std::pair<int, int>> cand;
    for (int t = 0; t < 64; ++t)
    {
        char c = g[t];
        if (!c || (isupper(c) != 0) != mover_white || c == 'P' || c == 'p') continue;
        for (int s = 0; s < 64; ++s)
            if (!g[s]) cand.push_back({s, t});
    }
    std::shuffle(cand.begin(), cand.end(), rng);
    for (auto& [s, t] : cand)
    {
        if ((int)res.size() >= max_out) break;
        char h[64];
        memcpy(h, g, 64);
        h[s] = h[t];
        h[t] = 0;
        std::string f;
        for (int r = 7; r >= 0; --r)
        {
            int e = 0;
            for (int k = 0; k < 8; ++k)
            {
                char ch = h[r * 8 + k];
                if (!ch) e++;
                else { if (e) f += char('0' + e); e = 0; f += ch; }
            }
            if (e) f += char('0' + e);
            if (r) f += '/';
        }
        f += mover_white ? " w - - 0 1" : " b - - 0 1";
        Position q(f);
        if (distance(q.piece_position(W_KING), q.piece_position(B_KING)) <= 1) continue;
        if (q.is_in_check(!q.color())) continue;
        MoveVec mv;
        mv.gen(q);
        if (mv.n > max_legal) continue;
        for (int i = 0; i < mv.n; ++i)
        {
            if (castling(mv.list[i]) != NO_CASTLING || from(mv.list[i]) != Square(s) || to(mv.list[i]) != Square(t)) continue;
            MoveInfo mi = q.do_move(mv.list[i]);
            bool same = fen4(q) == target;
            q.undo_move(mv.list[i], mi);
            if (same) res.push_back(f);
        }
    }
    return res;
}
}   // namespace

int cmd_nearmate_pool(const Args& a)
{
    init_engine();
    std::mt19937_64 rng(a.i("seed", 1));
    const long want_ref = a.i("refuted", 100), want_zz = a.i("zugzwang", 40);
    const long max_tries = a.i("max-tries", 400000);
    FILE* o = fopen(a.s("out").c_str(), "w");
    long n = 0, nref = 0, nzz = 0, tries = 0;

    // ---- refuted: a capture (or promotion) that gives check; one evasion runs into a capture that mates at once, a quiet evasion holds
    while (nref < want_ref && tries < max_tries)
    {
        tries++;
        std::string f = a.has("probe") ? a.s("probe") : random_attack_fen(rng);
        if (a.has("probe") && tries > 1) break;
        if (f.empty()) continue;
        Position p(f);
        if (p.is_in_check(p.color())) continue;
        MoveVec mv;
        mv.gen(p);
        bool found = false;
        for (int i = 0; i < mv.n && !found; ++i)
        {
            Move m = mv.list[i];
            if (!(p.move_is_capture(m) || promotion(m) != NO_PIECE_KIND)) continue;
            MoveInfo mi = p.do_move(m);
            if (p.is_in_check(p.color()))
            {
                MoveVec ev;
                ev.gen(p);
                int bad = 0, quiet_holds = 0;
                bool undecided = false;
                for (int j = 0; j < ev.n && ev.n >= 2; ++j)
                {
                    bool quiet = castling(ev.list[j]) == NO_CASTLING && p.piece_at(to(ev.list[j])) == NO_PIECE && promotion(ev.list[j]) == NO_PIECE_KIND;
                    MoveInfo ei = p.do_move(ev.list[j]);
                    // a capture that mates at once?
                    bool capmate = false;
                    MoveVec at;
                    at.gen(p);
                    for (int k = 0; k < at.n && !capmate; ++k)
                    {
                        if (!p.move_is_capture(at.list[k])) continue;
                        MoveInfo ai = p.do_move(at.list[k]);
                        MoveVec rr;
                        rr.gen(p);
                        capmate = rr.n == 0 && p.is_in_check(p.color());
                        p.undo_move(at.list[k], ai);
                    }
                    int r = 1;
                    if (!capmate)
                    {
                        long budget = 300000;
                        g_memo.clear();
                        r = solver_can_mate(p, 1, budget);
                        if (r == 0) r = solver_can_mate(p, 2, budget);
                    }
                    p.undo_move(ev.list[j], ei);
                    if (capmate) bad++;
                    else if (r == 0) { if (quiet) quiet_holds++; }
                    else if (r == -1) undecided = true;
                }
                if (!undecided && bad >= 1 && quiet_holds >= 1) found = true;
            }
            p.undo_move(m, mi);
        }
        if (!found) continue;
        nref++;
        emit(o, p, "nm-refuted", &n);
        // the shot must be met inside quiescence: roots one ply (the defender, nearly forced) and two plies earlier
        for (auto& f1 : predecessors(p, rng, 8, 3))
        {
            Position p1(f1);
            MoveVec m1;
            m1.gen(p1);
            if (m1.n > 3) continue;
            emit(o, p1, "nm-refuted-1", &n);
            int k2 = 0;
            for (auto& f2 : predecessors(p1, rng, 8))
            {
                Position p2(f2);
                if (p2.is_in_check(p2.color())) continue;
                emit(o, p2, "nm-refuted-2", &n);
                if (++k2 >= 6) break;
            }
        }
    }
    const long tries_ref = tries;

    // ---- zugzwang: S cannot mate within n+1, but the opponent to move in the same placement is doomed within n
    tries = 0;
    while (nzz < want_zz && tries < max_tries)
    {
        tries++;
        std::string f = random_zz_fen(rng);
        if (f.empty()) continue;
        Position p(f);
        // the same placement with the opponent to move
        std::string pf = f;
        size_t sp = pf.find(' ');
        pf[sp + 1] = pf[sp + 1] == 'w' ? 'b' : 'w';
        Position passed(pf);
        MoveVec pm;
        pm.gen(passed);
        if (pm.n == 0) continue;
        long budget = 400000;
        g_memo.clear();
        int nn = 0;
        for (int k = 1; k <= 3 && nn == 0; ++k)
        {
            int r = solver_doomed(passed, k, budget);
            if (r == 1) nn = k;
            if (r == -1) break;
        }
        if (nn == 0) continue;
        budget = 2000000;
        g_memo.clear();
        bool can = false;
        for (int k = 1; k <= nn + 1 && !can; ++k)
        {
            int r = solver_can_mate(p, k, budget);
            if (r != 0) can = true;   // can mate anyway (or undecided): not a zugzwang of the wanted kind
        }
        if (can) continue;
        nzz++;
        emit(o, p, "nm-zz", &n);
        for (auto& f1 : predecessors(p, rng, 6, 3))
        {
            Position p1(f1);
            MoveVec m1;
            m1.gen(p1);
            if (m1.n > 3) continue;              // the opponent is (nearly) forced to enter the zugzwang position
            emit(o, p1, "nm-zz-1", &n);
            for (auto& f2 : predecessors(p1, rng, 4))
            {
                Position p2(f2);
                emit(o, p2, "nm-zz-2", &n);
            }
        }
    }
    // ---- quietsave: after a move of the attacker, every capture / promotion of the defender runs into a mate in one while a quiet
    //      move does not: a search that skips the quiet moves of a node (far below alpha) must not call the node mated
    long nqs = 0;
    {
        const long want = a.i("quietsave", 0);
        long t3 = 0;
        while (nqs < want && t3 < max_tries)
        {
            t3++;
            std::string f = random_attack_fen(rng);
            if (f.empty()) continue;
            Position p(f);
            if (p.is_in_check(p.color())) continue;
            MoveVec mv;
            mv.gen(p);
            bool found = false;
            for (int i = 0; i < mv.n && !found; ++i)
            {
                MoveInfo mi = p.do_move(mv.list[i]);
                if (!p.is_in_check(p.color()))
                {
                    MoveVec dv;
                    dv.gen(p);
                    int loud = 0, loud_mated = 0, quiet_ok = 0;
                    for (int j = 0; j < dv.n; ++j)
                    {
                        bool quiet = castling(dv.list[j]) != NO_CASTLING || (p.piece_at(to(dv.list[j])) == NO_PIECE && promotion(dv.list[j]) == NO_PIECE_KIND &&
                                                                            !(make_piece_kind(p.piece_at(from(dv.list[j]))) == PAWN && to(dv.list[j]) == p.enpassant_square()));
                        MoveInfo dj = p.do_move(dv.list[j]);
                        bool m1 = mate_in_one(p);
                        p.undo_move(dv.list[j], dj);
                        if (quiet) { if (!m1) quiet_ok++; }
                        else { loud++; if (m1) loud_mated++; }
                    }
                    if (loud >= 1 && loud == loud_mated && quiet_ok >= 1) found = true;
                }
                p.undo_move(mv.list[i], mi);
            }
            if (!found) continue;
            nqs++;
            emit(o, p, "nm-quietsave", &n, false);
        }
    }
    // ---- dpush: the side to move is in check by a slider and a DOUBLE pawn push is among its (few) evasions; emitted with the
    //      predecessors in which the attacker is about to give that check (a generator that forgets such evasions sees a mate)
    long ndp = 0;
    {
        const long want = a.i("dpush", 0);
        long t2 = 0;
        while (ndp < want && t2 < max_tries)
        {
            t2++;
            char b[64];
            memset(b, 0, sizeof b);
            bool def_white = rng() % 2;
            auto D = [&](char c) { return def_white ? c : (char)tolower(c); };
            auto A = [&](char c) { return def_white ? (char)tolower(c) : c; };
            int home = def_white ? 1 : 6, dir = def_white ? 1 : -1;
            int pf = int(rng() % 8);
            int block = (home + 2 * dir) * 8 + pf;                  // the square the double push reaches
            b[home * 8 + pf] = D('P');
            // the defender's king on a line through `block`, the attacking slider further along the same line
            static const int dd[8][2] = {{1, 0}, {-1, 0}, {0, 1}, {0, -1}, {1, 1}, {1, -1}, {-1, 1}, {-1, -1}};
            int d = int(rng() % 8);
            int kd = 1 + int(rng() % 3), sd = 1 + int(rng() % 3);
            int kf = pf + dd[d][0] * kd, kr = (home + 2 * dir) + dd[d][1] * kd;
            int sf = pf - dd[d][0] * sd, sr = (home + 2 * dir) - dd[d][1] * sd;
            if (kf < 0 || kf > 7 || kr < 0 || kr > 7 || sf < 0 || sf > 7 || sr < 0 || sr > 7) continue;
            int ks = kr * 8 + kf, ss = sr * 8 + sf;
            if (b[ks] || b[ss] || ks == (home + dir) * 8 + pf || ss == (home + dir) * 8 + pf) continue;
            b[ks] = D('K');
            b[ss] = A(dd[d][0] && dd[d][1] ? (rng() % 2 ? 'B' : 'Q') : (rng() % 2 ? 'R' : 'Q'));
            auto place = [&](char ch) {
                for (int t = 0; t < 100; ++t)
                {
                    int s0 = int(rng() % 64);
                    if (b[s0] || s0 == block || s0 == (home + dir) * 8 + pf) continue;
                    if ((ch == 'P' || ch == 'p') && (s0 < 8 || s0 >= 56)) continue;
                    b[s0] = ch;
                    return true;
                }
                return false;
            };
            bool ok = place(A('K'));
            static const char* extraA[] = {"R", "Q", "RN", "B", "QR", "N", "RB"};
            static const char* extraD[] = {"", "P", "PP", "N", "PB", "R"};
            for (const char* q = extraA[rng() % 7]; *q && ok; ++q) ok = place(A(*q));
            for (const char* q = extraD[rng() % 6]; *q && ok; ++q) ok = place(D(*q));
            if (!ok) continue;
            std::string f;
            for (int r = 7; r >= 0; --r)
            {
                int e = 0;
                for (int k = 0; k < 8; ++k)
                {
                    char ch = b[r * 8 + k];
                    if (!ch) e++;
                    else { if (e) f += char('0' + e); e = 0; f += ch; }
                }
                if (e) f += char('0' + e);
                if (r) f += '/';
            }
            f += def_white ? " w - - 0 1" : " b - - 0 1";
            Position p(f);
            if (distance(p.piece_position(W_KING), p.piece_position(B_KING)) <= 1) continue;
            if (p.is_in_check(!p.color()) || !p.is_in_check(p.color())) continue;
            MoveVec mv;
            mv.gen(p);
            bool has_dp = false;
            for (int i = 0; i < mv.n; ++i)
                has_dp = has_dp || (castling(mv.list[i]) == NO_CASTLING && make_piece_kind(p.piece_at(from(mv.list[i]))) == PAWN && std::abs(int(to(mv.list[i])) - int(from(mv.list[i]))) == 16);
            // (has_dp is computed by the generator under test: a generator that forgets the move drops the position here, so the
            //  geometric construction above is the real selector and this test is only applied when it agrees)
            if (mv.n > 3) continue;
            (void)has_dp;
            ndp++;
            emit(o, p, "nm-dpush", &n, false);
            int k1 = 0;
            for (auto& f1 : predecessors(p, rng, 6))
            {
                Position p1(f1);
                if (p1.is_in_check(p1.color())) continue;
                emit(o, p1, "nm-dpush-1", &n, false);
                if (++k1 >= 3) break;
            }
        }
    }
    // ---- minimal mates: a cornered king hemmed in by one piece of its own, mated in one by king + one minor piece (or minor + pawn);
    //      mates that exist only because the material IS sufficient (opposite bishops, knight v knight, ...)
    long nmin = 0;
    if (a.i("minimal", 0))
    {
        const long want = a.i("minimal", 0);
        std::vector<std::string> found;
        static const int corners[] = {0, 7, 56, 63};
        const char strongk[] = {'B', 'N'};
        const char weakk[] = {'B', 'N', 'P', 'R'};
        for (int ci = 0; ci < 4; ++ci)
            for (int adj = 0; adj < 64; ++adj)
            {
                int c = corners[ci];
                if (adj == c || std::max(std::abs(adj % 8 - c % 8), std::abs(adj / 8 - c / 8)) != 1) continue;
                for (int sk = 0; sk < 64; ++sk)
                {
                    if (std::max(std::abs(sk % 8 - c % 8), std::abs(sk / 8 - c / 8)) != 2) continue;
                    for (int sp = 0; sp < 64; ++sp)
                        for (char s1 : strongk)
                            for (char w1 : weakk)
                                for (int strong_white = 0; strong_white < 2; ++strong_white)
                                {
                                    if (sp == c || sp == adj || sp == sk || sk == adj) continue;
                                    if (w1 == 'P' && (adj < 8 || adj >= 56)) continue;
                                    char b[64];
                                    memset(b, 0, sizeof b);
                                    b[c] = strong_white ? 'k' : 'K';
                                    b[adj] = strong_white ? (char)tolower(w1) : w1;
                                    b[sk] = strong_white ? 'K' : 'k';
                                    b[sp] = strong_white ? s1 : (char)tolower(s1);
                                    std::string f;
                                    for (int r = 7; r >= 0; --r)
                                    {
                                        int e = 0;
                                        for (int k = 0; k < 8; ++k)
                                        {
                                            char ch = b[r * 8 + k];
                                            if (!ch) e++;
                                            else { if (e) f += char('0' + e); e = 0; f += ch; }
                                        }
                                        if (e) f += char('0' + e);
                                        if (r) f += '/';
                                    }
                                    f += strong_white ? " w - - 0 1" : " b - - 0 1";
                                    Position p(f);
                                    if (p.is_in_check(!p.color()) || p.is_in_check(p.color())) continue;
                                    if (mate_in_one(p)) found.push_back(f);
                                }
                }
            }
        std::shuffle(found.begin(), found.end(), rng);
        for (auto& f : found)
        {
            if (nmin >= want) break;
            Position p(f);
            emit(o, p, "nm-minimal", &n, false);
            nmin++;
        }
        fprintf(stderr, "nearmate-pool: %zu minimal mates in one exist in the enumerated shapes, %ld emitted\n", found.size(), nmin);
    }
    fclose(o);
    fprintf(stderr, "nearmate-pool: %ld lines; refuted %ld (of %ld tries), zugzwang %ld (of %ld tries)\n", n, nref, tries_ref, nzz, tries);
    return 0;
}
}   // namespace vh
