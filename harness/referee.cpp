// scripted-engine: a UCI engine that plays a given game, for the conformance runs of the regression tool's referee
// (tools/regression).  It answers `uci`, `isready`, `ucinewgame`, `position ... moves m1 .. mk` (remembers k), `go ...`
// (one info line with a score, then `bestmove <script[k]>`), `quit`.  Beyond the end of its script it answers `bestmove 0000`.
//
// referee-games: complete legal games for those runs - played by the engine library's own rules predicates until the game is over
// (checkmate, stalemate, or a draw by the fifty-move rule, threefold repetition or insufficient material), one line per game:
//   <uci moves separated by blanks>
// Generator only: RefereeTrace.tla recomputes where each game ends and how.
#include "common.h"
#include <unistd.h>

namespace vh
{
int cmd_scripted_engine(const Args& a)
{
    std::vector<std::string> script;
    {
        std::ifstream f(a.s("script"));
        std::string w;
        while (f >> w) script.push_back(w);
    }
    size_t k = 0;
    std::string line;
    // every command received is appended to <script>.<pid>.cmds (what the referee actually sends is part of its conformance)
    FILE* log = a.has("log") ? fopen((a.s("log") + "." + std::to_string(getpid()) + ".cmds").c_str(), "w") : nullptr;
    while (std::getline(std::cin, line))
    {
        if (log) { fprintf(log, "%s\n", line.c_str()); fflush(log); }
        std::istringstream is(line);
        std::string tok;
        is >> tok;
        if (tok == "uci") std::cout << "id name scripted\nuciok" << std::endl;
        else if (tok == "isready") std::cout << "readyok" << std::endl;
        else if (tok == "position")
        {
            k = 0;
            bool in_moves = false;
            while (is >> tok)
            {
                if (tok == "moves") { in_moves = true; continue; }
                if (in_moves) k++;
            }
        }
        else if (tok == "go")
        {
            std::cout << "info depth 1 score cp " << (k % 2 ? -13 : 13) << " nodes 1 nps 1 time 0 pv " << (k < script.size() ? script[k] : "0000") << std::endl;
            std::cout << "bestmove " << (k < script.size() ? script[k] : "0000") << std::endl;
        }
        else if (tok == "quit") break;
    }
    return 0;
}

int cmd_referee_games(const Args& a)
{
    init_engine();
    std::vector<std::string> roots = {Position::STARTPOS_FEN};
    const int games = (int)a.i("games", 20), maxply = (int)a.i("maxply", 300);
    std::mt19937_64 rng(a.i("seed", 1));
    FILE* o = fopen(a.s("out").c_str(), "w");
    int done = 0;
    for (int g = 0; g < games * 20 && done < games; ++g)
    {
        Position p;
        std::vector<std::string> ms;
        // 0 random, 1 capture-hungry (material draws), 2 shuffling (repetitions), 3 mate / stalemate seeking,
        // 4 quiet and never repeating (fifty-move draws), 5 capture-hungry then stalemate / mate seeking
        const int style = int(rng() % 6);
        std::map<std::string, int> seen;
        Move last_own[2] = {NO_MOVE, NO_MOVE};
        bool over = false;
        for (int ply = 0; ply < maxply; ++ply)
        {
            MoveVec mv;
            mv.gen(p);
            if (mv.n == 0 || p.is_draw()) { over = true; break; }
            Move m = mv.list[rng() % uint64_t(mv.n)];
            if (style == 1 || style == 5 || (style == 3 && rng() % 2))
                for (int t = 0; t < 2 * mv.n; ++t) { Move c = mv.list[rng() % uint64_t(mv.n)]; if (p.move_is_capture(c)) { m = c; break; } }
            if (style == 2 && ply > 6 && last_own[p.color()] != NO_MOVE && castling(last_own[p.color()]) == NO_CASTLING)
            {
                Move rev = create_move(to(last_own[p.color()]), from(last_own[p.color()]));
                for (int i = 0; i < mv.n; ++i) if (mv.list[i] == rev) m = rev;
            }
            if (style == 4)
            {
                // a quiet non-pawn move into a position that has not occurred yet (after a few opening moves)
                for (int t = 0; t < 6 * mv.n && ply > 8; ++t)
                {
                    Move c = mv.list[rng() % uint64_t(mv.n)];
                    if (castling(c) != NO_CASTLING || p.piece_at(to(c)) != NO_PIECE || make_piece_kind(p.piece_at(from(c))) == PAWN) continue;
                    MoveInfo mi = p.do_move(c);
                    std::string f = p.fen();
                    p.undo_move(c, mi);
                    f = f.substr(0, f.rfind(' ', f.rfind(' ') - 1));
                    if (seen[f] == 0) { m = c; break; }
                }
            }
            const bool stale_first = style == 5 || (style == 3 && g % 2);
            if (style == 3 || (style == 5 && ply > 60))
                for (int pass = 0; pass < 2; ++pass)
                    for (int i = 0; i < mv.n; ++i)
                    {
                        MoveInfo mi = p.do_move(mv.list[i]);
                        MoveVec r;
                        r.gen(p);
                        bool chk = p.is_in_check(p.color());
                        p.undo_move(mv.list[i], mi);
                        if (r.n == 0 && ((pass == 0) != stale_first ? chk : !chk)) { m = mv.list[i]; pass = 2; break; }
                    }
            last_own[p.color()] = m;
            ms.push_back(p.uci(m));
            p.do_move(m);
            {
                std::string f = p.fen();
                seen[f.substr(0, f.rfind(' ', f.rfind(' ') - 1))]++;
            }
        }
        if (!over) { MoveVec mv; mv.gen(p); over = mv.n == 0 || p.is_draw(); }
        if (!over) continue;   // not finished within maxply: not a complete game
        std::string line;
        for (auto& s : ms) line += (line.empty() ? "" : " ") + s;
        fprintf(o, "%s\n", line.c_str());
        done++;
    }
    fclose(o);
    fprintf(stderr, "referee-games: %d complete games\n", done);
    return 0;
}
}   // namespace vh
