"""Build the harness together with the engine sources of /repo's *current working tree*.

Objects are cached under /verif/.build/<hash>/ where the hash covers every engine source,
every harness source and the flags, so any edit to /repo forces a rebuild."""
import hashlib, os, subprocess, sys, glob, shutil, time
from concurrent.futures import ThreadPoolExecutor

VERIF = os.path.dirname(os.path.dirname(os.path.abspath(__file__)))
REPO = os.environ.get("VERIF_REPO", "/repo")
GUARD = "CHESSPP_VERIF"

def gsan_engine():
    """the engine's own executable built with g++ -O0 and AddressSanitizer + UndefinedBehaviorSanitizer (recoverable): at -O0 every
    load the source performs is performed, so loads of indeterminate bool / enum members (copies of half-initialised objects) are
    reported; used by C10 for short whole-process sessions.  Engine sources only; cached under its own key."""
    srcs = sorted(glob.glob(os.path.join(REPO, "engine", "*.cpp")))
    h = hashlib.sha256()
    for f in srcs + sorted(glob.glob(os.path.join(REPO, "engine", "*.h"))):
        h.update(f.encode()); h.update(open(f, "rb").read())
    bdir = os.path.join(VERIF, ".build", "gsan-" + h.hexdigest()[:20])
    exe = os.path.join(bdir, "engine")
    if os.path.exists(exe):
        return exe
    for d in sorted(glob.glob(os.path.join(VERIF, ".build", "gsan-*")), key=lambda d: os.path.getmtime(d))[:-1]:
        shutil.rmtree(d, ignore_errors=True)
    tmp = bdir + ".tmp%d" % os.getpid()
    os.makedirs(tmp, exist_ok=True)
    with open(os.path.join(tmp, "chessplusplusConfig.h"), "w") as f:
        f.write('#define ENGINE_NAME "chessplusplus"\n#define CHESSPLUSPLUS_VERSION "verif"\n')
    common = ["g++", "-std=c++20", "-O0", "-g", "-fsanitize=address,undefined", "-D" + GUARD, "-DLOG_LEVEL=0", "-DNDEBUG", "-pthread",
              "-I" + os.path.join(REPO, "engine"), "-I" + tmp]
    def comp(src):
        obj = os.path.join(tmp, os.path.basename(src)[:-4] + ".o")
        r = subprocess.run(common + ["-c", src, "-o", obj], capture_output=True, text=True)
        return (obj, r.returncode, r.stderr)
    with ThreadPoolExecutor(max_workers=16) as ex:
        res = list(ex.map(comp, srcs))
    bad = [r for r in res if r[1] != 0]
    if bad:
        sys.stderr.write("GSAN BUILD FAILED\n" + bad[0][2][-3000:])
        shutil.rmtree(tmp, ignore_errors=True)
        raise SystemExit(3)
    r = subprocess.run(["g++", "-pthread", "-fsanitize=address,undefined"] + [o for o, _, _ in res] + ["-o", os.path.join(tmp, "engine")], capture_output=True, text=True)
    if r.returncode != 0:
        sys.stderr.write("GSAN LINK FAILED\n" + r.stderr[-3000:])
        shutil.rmtree(tmp, ignore_errors=True)
        raise SystemExit(3)
    try:
        os.rename(tmp, bdir)
    except OSError:
        shutil.rmtree(tmp, ignore_errors=True)
    return exe


VARIANTS = {
    # name: (compiler, flags, link flags)
    "plain": ("g++", ["-O1", "-g"], []),
    "asan": ("clang++", ["-O1", "-g", "-fsanitize=address,undefined", "-fno-omit-frame-pointer", "-fno-sanitize-recover=undefined"],
             ["-fsanitize=address,undefined"]),
    "tsan": ("clang++", ["-O1", "-g", "-fsanitize=thread"], ["-fsanitize=thread"]),
}

def engine_sources():
    return sorted(f for f in glob.glob(os.path.join(REPO, "engine", "*.cpp")) if not f.endswith("/main.cpp"))

def harness_sources():
    return sorted(glob.glob(os.path.join(VERIF, "harness", "*.cpp")))

def tree_hash(variant):
    h = hashlib.sha256()
    files = engine_sources() + [os.path.join(REPO, "engine", "main.cpp")] + sorted(glob.glob(os.path.join(REPO, "engine", "*.h"))) + harness_sources() \
        + sorted(glob.glob(os.path.join(VERIF, "harness", "*.h"))) + sorted(glob.glob(os.path.join(REPO, "tools", "regression", "*.cpp"))) \
        + sorted(glob.glob(os.path.join(REPO, "tools", "regression", "*.h")))
    for f in files:
        h.update(f.encode()); h.update(open(f, "rb").read())
    h.update(repr(VARIANTS[variant]).encode())
    return h.hexdigest()[:20]

def build(variant="plain", quiet=True):
    """returns path of the vh binary for /repo's current working tree"""
    hv = tree_hash(variant)
    bdir = os.path.join(VERIF, ".build", variant + "-" + hv)
    exe = os.path.join(bdir, "vh")
    if os.path.exists(exe):
        return exe
    # drop stale builds of the same variant (disk is limited), keeping the four most recent ones and anything younger than an
    # hour: another check (or a run against another tree, VERIF_REPO) may still be running from them
    old = sorted(glob.glob(os.path.join(VERIF, ".build", variant + "-*")), key=lambda d: os.path.getmtime(d))
    for d in old[:-4]:
        if time.time() - os.path.getmtime(d) > 3600:
            shutil.rmtree(d, ignore_errors=True)
    final_bdir = bdir
    bdir = bdir + ".tmp%d" % os.getpid()
    exe = os.path.join(bdir, "vh")
    os.makedirs(bdir, exist_ok=True)
    with open(os.path.join(bdir, "chessplusplusConfig.h"), "w") as f:
        f.write('#define ENGINE_NAME "chessplusplus"\n#define CHESSPLUSPLUS_VERSION "verif"\n')
    cc, flags, lflags = VARIANTS[variant]
    common = [cc, "-std=c++20", "-D" + GUARD, "-DLOG_LEVEL=0", "-DNDEBUG", "-pthread",
              "-I" + os.path.join(REPO, "engine"), "-I" + bdir, "-I" + os.path.join(VERIF, "harness")] + flags
    jobs = []
    for src in engine_sources() + harness_sources():
        tag = "e_" if "/engine/" in src else "h_"
        obj = os.path.join(bdir, tag + os.path.basename(src)[:-4] + ".o")
        jobs.append((src, obj))
    def comp(job):
        src, obj = job
        r = subprocess.run(common + ["-c", src, "-o", obj], capture_output=True, text=True)
        return (src, r.returncode, r.stderr)
    t0 = time.time()
    with ThreadPoolExecutor(max_workers=16) as ex:
        results = list(ex.map(comp, jobs))
    failed = [r for r in results if r[1] != 0]
    if failed:
        for src, rc, err in failed:
            sys.stderr.write("BUILD FAILED %s\n%s\n" % (src, err[-4000:]))
        shutil.rmtree(bdir, ignore_errors=True)
        raise SystemExit(3)
    r = subprocess.run([cc, "-pthread"] + lflags + [o for _, o in jobs] + ["-o", exe + ".tmp"], capture_output=True, text=True)
    if r.returncode != 0:
        sys.stderr.write("LINK FAILED\n" + r.stderr[-4000:])
        shutil.rmtree(bdir, ignore_errors=True)
        raise SystemExit(3)
    os.rename(exe + ".tmp", exe)
    # the engine's own executable (engine/main.cpp + the same engine objects), for observations of whole processes (exit status)
    mobj = os.path.join(bdir, "m_main.o")
    r = subprocess.run(common + ["-c", os.path.join(REPO, "engine", "main.cpp"), "-o", mobj], capture_output=True, text=True)
    if r.returncode == 0:
        r = subprocess.run([cc, "-pthread"] + lflags + [o for s_, o in jobs if "/engine/" in s_] + [mobj, "-o", os.path.join(bdir, "engine")], capture_output=True, text=True)
    if r.returncode != 0:
        sys.stderr.write("ENGINE BINARY BUILD FAILED\n" + r.stderr[-4000:])
        shutil.rmtree(bdir, ignore_errors=True)
        raise SystemExit(3)
    # the regression tool (tools/regression/*.cpp + the same engine objects), for the referee conformance runs
    rsrc = sorted(glob.glob(os.path.join(REPO, "tools", "regression", "*.cpp")))
    robjs = []
    def rcomp(src):
        obj = os.path.join(bdir, "r_" + os.path.basename(src)[:-4] + ".o")
        r_ = subprocess.run(common + ["-I" + os.path.join(REPO, "tools", "regression"), '-DECO_CODES_FILE="%s"' % os.path.join(REPO, "tools", "regression", "scid.eco"),
                                       "-c", src, "-o", obj], capture_output=True, text=True)
        return (obj, r_.returncode, r_.stderr)
    with ThreadPoolExecutor(max_workers=8) as ex:
        rres = list(ex.map(rcomp, rsrc))
    if all(rc == 0 for _, rc, _ in rres):
        r = subprocess.run([cc, "-pthread"] + lflags + [o for s_, o in jobs if "/engine/" in s_] + [o for o, _, _ in rres] + ["-o", os.path.join(bdir, "regression")], capture_output=True, text=True)
        if r.returncode != 0:
            sys.stderr.write("REGRESSION TOOL LINK FAILED (the referee conformance run will report it)\n" + r.stderr[-2000:])
    else:
        sys.stderr.write("REGRESSION TOOL BUILD FAILED (the referee conformance run will report it)\n" + "".join(e[-1500:] for _, rc, e in rres if rc != 0))
    try:
        os.rename(bdir, final_bdir)          # atomic publish; a concurrent builder of the same tree may have won
    except OSError:
        shutil.rmtree(bdir, ignore_errors=True)
    exe = os.path.join(final_bdir, "vh")
    if not quiet:
        sys.stderr.write("built %s in %.1fs\n" % (exe, time.time() - t0))
    return exe

def regression_exe(variant="plain"):
    """tools/regression built from the same tree"""
    return os.path.join(os.path.dirname(build(variant)), "regression")


def engine_exe(variant="plain"):
    """the engine's own UCI executable built with the same flags from the same tree"""
    return os.path.join(os.path.dirname(build(variant)), "engine")


if __name__ == "__main__":
    v = sys.argv[1] if len(sys.argv) > 1 else "plain"
    print(build(v, quiet=False))
