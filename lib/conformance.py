"""Conformance monitors: parts of the specification that describe engine behaviour OUTSIDE the twenty listed properties and are
bound to the code in the same way (observations of the real code validated by TLC against the spec).  They never print a
VIOLATION line and are not registered as property checks: a difference here means the code and the spec's description of it
have drifted apart (NONCONFORMANCE), which may be a deliberate retuning of a heuristic.  Results go to conformance/<name>.json."""
import json, os, sys, glob, time
import core, build
from core import InfraError


def run(name, fn, tier):
    t0 = time.time()
    work = core.workdir("conf-" + name)
    res = fn(work, tier)
    res.update(name=name, tier=tier, seed=core.seed(), wall_s=round(time.time() - t0, 2))
    os.makedirs(os.path.join(core.VERIF, "conformance"), exist_ok=True)
    viols = res.pop("viols")
    res["nonconformances"] = len(viols)
    res["first"] = viols[:5]
    with open(os.path.join(core.VERIF, "conformance", name + ".json"), "w") as f:
        json.dump(res, f, indent=1, default=str)
    for v in viols[:10]:
        print("NONCONFORMANCE %s %s" % (name, json.dumps(v, default=str)[:500]))
    print("conformance %s %s: %s in %.1fs %s" % (name, tier, "conforms" if not viols else "%d difference(s)" % len(viols), time.time() - t0,
                                                 json.dumps(res.get("counters", {}))))
    return 1 if viols else 0


def order(work, tier):
    """MoveOrder.tla / OrderTrace.tla against MoveOrderer::order_moves"""
    exe = build.build("plain")
    full = tier == "thorough"
    core.run_vh(exe, ["order-replay", "--roots", core.roots_file("roots_general.fen"), "--out-prefix", os.path.join(work, "o"),
                      "--synthetic", 40000 if full else 4000, "--warm", 400 if full else 60, "--seed", core.seed(), "--shards", 16], timeout=3000)
    shards = sorted(glob.glob(os.path.join(work, "o.*.ndjson")))
    viols, cnt, st = core.validate_shards(shards, module="OrderTrace.tla", cfg="OrderTrace.cfg", timeout=3000)
    if cnt.get("calls", 0) != core.count_lines(shards):
        raise InfraError("order monitor consumed %d of %d lines" % (cnt.get("calls", 0), core.count_lines(shards)))
    return dict(viols=viols, counters=cnt, states=st["distinct"], spec=["MoveOrder.tla", "OrderTrace.tla"],
                what="every observed call of order_moves (synthetic contexts and the orderer of a real search after that search) returns a permutation "
                     "of the legal moves whose scores, recomputed by the spec from the position and the node's context, do not increase, and "
                     "the engine's score of every move equals the spec's")


MONITORS = {"order": order}

if __name__ == "__main__":
    args = sys.argv[1:]
    tier = "quick"
    if "--tier" in args:
        tier = args[args.index("--tier") + 1]
        args = [a for a in args if a not in ("--tier", tier)]
    names = args or sorted(MONITORS)
    rc = 0
    for n in names:
        try:
            rc |= run(n, MONITORS[n], tier)
        except InfraError as ex:
            sys.stderr.write("infrastructure problem: %s\n" % ex)
            rc |= 3
    sys.exit(rc)
