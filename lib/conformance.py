"""Conformance monitors: parts of the specification that describe engine behaviour OUTSIDE the twenty listed properties and are
bound to the code in the same way (observations of the real code validated by TLC against the spec).  They never print a
VIOLATION line and are not registered as property checks: a difference here means the code and the spec's description of it
have drifted apart (NONCONFORMANCE), which may be a deliberate retuning of a heuristic.  Results go to conformance/<name>.json."""
import json, os, sys, glob, time, subprocess
import core, build
from core import InfraError


def run(name, fn, tier):
    t0 = time.time()
    work = core.workdir("conf-" + name)
    res = fn(work, tier)
    res.update(name=name, tier=tier, seed=core.seed(), wall_s=round(time.time() - t0, 2))
    os.makedirs(os.path.join(core.VERIF, "conformance"), exist_ok=True)
    viols = res.pop("viols")
    res["nonconformances"] = len(viols)
    res["first"] = viols[:5]
    with open(os.path.join(core.VERIF, "conformance", name + ".json"), "w") as f:
        json.dump(res, f, indent=1, default=str)
    for v in viols[:10]:
        print("NONCONFORMANCE %s %s" % (name, json.dumps(v, default=str)[:500]))
    print("conformance %s %s: %s in %.1fs %s" % (name, tier, "conforms" if not viols else "%d difference(s)" % len(viols), time.time() - t0,
                                                 json.dumps(res.get("counters", {}))))
    return 1 if viols else 0


def order(work, tier):
    """MoveOrder.tla / OrderTrace.tla against MoveOrderer::order_moves"""
    exe = build.build("plain")
    full = tier == "thorough"
    core.run_vh(exe, ["order-replay", "--roots", core.roots_file("roots_general.fen"), "--out-prefix", os.path.join(work, "o"),
                      "--synthetic", 40000 if full else 4000, "--warm", 400 if full else 60, "--seed", core.seed(), "--shards", 16], timeout=3000)
    shards = sorted(glob.glob(os.path.join(work, "o.*.ndjson")))
    viols, cnt, st = core.validate_shards(shards, module="OrderTrace.tla", cfg="OrderTrace.cfg", timeout=3000)
    if cnt.get("calls", 0) != core.count_lines(shards):
        raise InfraError("order monitor consumed %d of %d lines" % (cnt.get("calls", 0), core.count_lines(shards)))
    return dict(viols=viols, counters=cnt, states=st["distinct"], spec=["MoveOrder.tla", "OrderTrace.tla"],
                what="every observed call of order_moves (synthetic contexts and the orderer of a real search after that search) returns a permutation "
                     "of the legal moves whose scores, recomputed by the spec from the position and the node's context, do not increase, and "
                     "the engine's score of every move equals the spec's")


def parse_pgn(text):
    """one game: tags, movetext with {comments}, result; returns (tag result, movetext result, SAN list, move numbers ok)"""
    import re
    tag = re.search(r'\[Result "([^"]*)"\]', text)
    body = text.split("\n\n", 1)[1] if "\n\n" in text else ""
    body = re.sub(r"\{[^}]*\}", " ", body)
    toks = body.split()
    sans, nums_ok, result, expect_no = [], True, "", 1
    for t in toks:
        if t in ("1-0", "0-1", "1/2-1/2", "*"):
            result = t
        elif re.fullmatch(r"\d+\.", t):
            # a move number stands before every white move and counts 1, 2, 3, ...
            if len(sans) % 2 != 0 or int(t[:-1]) != len(sans) // 2 + 1:
                nums_ok = False
        else:
            if len(sans) % 2 == 0 and (not sans and False):
                pass
            sans.append(t)
    # every white move must have been preceded by its number: count the numbers
    n_numbers = sum(1 for t in toks if re.fullmatch(r"\d+\.", t))
    if n_numbers != (len(sans) + 1) // 2:
        nums_ok = False
    return (tag.group(1) if tag else ""), result, sans, nums_ok


def referee(work, tier):
    """Referee.tla / RefereeTrace.tla against the real `regression` binary playing scripted engines"""
    exe = build.build("plain")
    reg = build.regression_exe("plain")
    full = tier == "thorough"
    # D: the referee as a state machine over the game machine, exhaustive from small roots
    design = {}
    for i, root in enumerate(["7k/5K2/6Q1/8/8/8/8/8 w - - 0 1", "k7/2K5/8/8/8/8/8/1R6 w - - 0 1", "7k/5K2/8/6P1/8/8/8/8 b - - 98 60"] + (["8/8/8/8/8/2k5/1q6/K7 b - - 0 1"] if full else [])):
        cfg = os.path.join(work, "Referee%d.cfg" % i)
        open(cfg, "w").write('CONSTANTS Root = "%s" MaxPlies = 3\nSPECIFICATION Spec\nCONSTRAINT Bounded\nINVARIANTS EndedOnlyWhenOver OneFlag ResultSound\nCHECK_DEADLOCK FALSE\n' % root)
        r = core.tlc_ok(core.tlc("Referee.tla", cfg=cfg, workers=4, timeout=900, metadir=os.path.join(work, "md%d" % i)), "Referee design")
        design[root] = r["distinct"]
    games_f = os.path.join(work, "games.txt")
    core.run_vh(exe, ["referee-games", "--games", 400 if full else 36, "--maxply", 400, "--out", games_f, "--seed", core.seed()], timeout=3000)
    games = [l.split() for l in open(games_f) if l.strip()]
    if len(games) < 10:
        raise InfraError("too few complete games for the referee run")
    from concurrent.futures import ThreadPoolExecutor

    def play(i):
        ms = games[i]
        d = os.path.join(work, "g%d" % i)
        os.makedirs(d, exist_ok=True)
        open(os.path.join(d, "script.txt"), "w").write(" ".join(ms) + "\n")
        for side in ("w", "b"):
            sh = os.path.join(d, side + ".sh")
            open(sh, "w").write("#!/bin/sh\nexec %s scripted-engine --script %s --log %s\n" % (exe, os.path.join(d, "script.txt"), os.path.join(d, side)))
            os.chmod(sh, 0o755)
        pgn = os.path.join(d, "game.pgn")
        # every third game the engines are given options (one with a value, one without)
        opts = (["option=Hash:16", "option=Clear Hash"] if i % 3 == 0 else [])
        r = subprocess.run([reg, "--engine", "command=" + os.path.join(d, "w.sh"), "name=A"] + opts + ["--engine", "command=" + os.path.join(d, "b.sh"), "name=B"] + opts +
                           ["--format", "5+0:1", "--threads", "1", "--pgn", pgn, "--seed", "1"], capture_output=True, text=True, timeout=300, cwd=d)
        text = open(pgn).read() if os.path.exists(pgn) else ""
        tagres, res, sans, nums_ok = parse_pgn(text)
        protos = []
        for cf in sorted(glob.glob(os.path.join(d, "*.cmds"))):
            words = [l.split()[0] for l in open(cf) if l.split()]
            protos.append(dict(words=words, options=len(opts)))
        return dict(script=ms, sans=sans, result=res, tagresult=tagres, numbers_ok=nums_ok, exit=r.returncode), protos
    with ThreadPoolExecutor(max_workers=12) as ex:
        played = list(ex.map(play, range(len(games))))
    recs = [p[0] for p in played]
    protos = [q for p in played for q in p[1]]
    shards = []
    for k in range(8):
        p = os.path.join(work, "ref.%d.ndjson" % k)
        with open(p, "w") as f:
            for r in recs[k::8]:
                f.write(json.dumps(r) + "\n")
            for r in protos[k::8]:
                f.write(json.dumps(r) + "\n")
        shards.append(p)
    viols, cnt, st = core.validate_shards(shards, module="RefereeTrace.tla", cfg="RefereeTrace.cfg", timeout=3000)
    if cnt.get("engines", 0) != len(protos) or not protos:
        raise InfraError("referee monitor consumed %d of %d engine command logs" % (cnt.get("engines", 0), len(protos)))
    if cnt.get("games", 0) != len(recs):
        raise InfraError("referee monitor consumed %d of %d games" % (cnt.get("games", 0), len(recs)))
    for k in ("mate", "threefold"):
        if cnt.get(k, 0) == 0:
            raise InfraError("vacuous referee run: no game ended by %s" % k)
    return dict(viols=viols, counters=cnt, states=st["distinct"] + sum(design.values()), design_states=design, spec=["RefereeDefs.tla", "Referee.tla", "RefereeTrace.tla"],
                what="complete legal games (ending in mate, stalemate, fifty-move, threefold and material draws) are played through the real `regression` "
                     "binary by two scripted UCI engines; the monitor replays every game with the rules specification and checks that the record ends exactly where the "
                     "game is over, that the result (tag and movetext) is the outcome of the final position, that every SAN of the PGN denotes exactly the move played "
                     "with the right check / mate suffix, and that move numbers are in order")


def tree(work, tier):
    """SearchTree.tla / TreeTrace.tla against the node entries and exits of real searches (hook points node/qnode/window/exit/qexit)"""
    import random
    exe = build.build("plain")
    full = tier == "thorough"
    rng = random.Random(core.seed())

    def roots(name):
        return [l.strip() for l in open(core.roots_file(name)) if l.strip() and not l.startswith("#")]
    general, lowmat, mate, clock, zug = roots("roots_general.fen"), roots("roots_lowmat.fen"), roots("roots_mate.fen"), roots("roots_highclock.fen"), roots("roots_zugzwang.fen")
    found = roots("roots_nearmate_found.fen")
    nshards = 16
    per = 3 if full else 1
    shards, jobs = [], []
    for k in range(nshards):
        plan = []
        for _ in range(per):
            # fen | moves | depth | from_iter | cap | tt
            plan.append("%s||%d|1|%d|fresh" % (rng.choice(general), rng.choice([2, 3]), 500))
            plan.append("%s|@shuffle|%d|%d|%d|warm" % (rng.choice(lowmat + general[:20]), 4, 3, 500))
            plan.append("%s||%d|1|%d|fresh" % (rng.choice(mate + found + zug[:200]), 3, 400))
            plan.append("%s||%d|2|%d|warm" % (rng.choice(clock), 3, 300))
            d = rng.choice([7, 8, 9])
            plan.append("%s||%d|%d|%d|fresh" % (rng.choice(general), d, d - 1, 1500))
            # every table entry evicted when the recorded iteration starts: pv nodes without an entry deepen internally
            plan.append("%s||%d|%d|%d|evict" % (rng.choice(general), 8, 7, 1200))
        pf = os.path.join(work, "plan.%d.txt" % k)
        open(pf, "w").write("\n".join(plan) + "\n")
        out = os.path.join(work, "tree.%d.ndjson" % k)
        jobs.append((pf, out))
        shards.append(out)
    from concurrent.futures import ThreadPoolExecutor
    with ThreadPoolExecutor(max_workers=8) as ex:
        list(ex.map(lambda j: core.run_vh(exe, ["tree-runs", "--plan", j[0], "--out", j[1]], timeout=900), jobs))
    # D: the value discipline of the node loop (zero-width probe, re-search, mate-distance step, fail-soft bounds) on every abstract tree;
    #    the seeded design errors must be rejected by the same theorem
    variants = ["engine", "no_research", "step_toward_mate", "no_step", "prune_engine", "prune_no_guard", "table_engine", "table_store_restricted_root"]

    def design(v):
        cfgname = "AlphaBeta.cfg" if (v == "engine" and full) else "AlphaBeta_prune_engine_full.cfg" if (v == "prune_engine" and full) else "AlphaBeta_%s.cfg" % v
        return v, core.tlc("AlphaBeta.tla", cfg=cfgname, workers=4, timeout=1800, metadir=os.path.join(work, "md-ab-" + v))
    with ThreadPoolExecutor(max_workers=4) as ex:
        dres = dict(ex.map(design, variants))
    core.tlc_ok(dres["engine"], "AlphaBeta design")
    core.tlc_ok(dres["prune_engine"], "AlphaBeta design with futility pruning (MateClaimsSound)")
    core.tlc_ok(dres["table_engine"], "AlphaBeta design: entries a (restricted) root stores (TableEntriesSound)")
    for v in ("no_research", "step_toward_mate", "no_step", "prune_no_guard", "table_store_restricted_root"):
        if dres[v]["rc"] != 12:
            raise InfraError("AlphaBeta: the seeded design error %s was not rejected (rc=%d)" % (v, dres[v]["rc"]))
    viols, cnt, st = core.validate_shards(shards, module="TreeTrace.tla", cfg="TreeTrace.cfg", timeout=3000)
    cnt["design_trees"] = dres["engine"]["distinct"]
    cnt["design_trees_with_pruning"] = dres["prune_engine"]["distinct"]
    lines = core.count_lines(shards)
    if cnt.get("go", 0) + cnt.get("n", 0) + cnt.get("x", 0) + nshards * per * 6 != lines:
        raise InfraError("tree monitor consumed %d of %d lines" % (cnt.get("go", 0) + cnt.get("n", 0) + cnt.get("x", 0), lines))
    for k in ("qentry", "null", "iid", "capture_steps", "drawn_nodes", "repeated_nodes", "mated_nodes", "rule_values", "stopped_exits"):
        if cnt.get(k, 0) == 0:
            raise InfraError("vacuous search-tree run: no %s observed" % k)
    return dict(viols=viols, counters=cnt, states=st["distinct"], spec=["SearchTree.tla", "TreeTrace.tla", "AlphaBeta.tla"],
                what="AlphaBeta.tla: the node loop's value discipline (zero-width probe of every move, full re-search at pv nodes, mate-distance step, fail-soft "
                     "returns) satisfies the fail-soft theorem against plain minimax on every leaf assignment of the abstract tree and every listed window, and "
                     "three seeded design errors are rejected by it; with every choice of moves skipped at frontier nodes under the engine's guard a mate score at the root "
                     "remains a true bound (MateClaimsSound), and without the guard (the code before cccf193) it does not; what a root restricted to any subset of its moves stores in the table is a true bound "
                     "of the position (TableEntriesSound), and with the code before 02d6ef3 it is not.  TreeTrace.tla: every node entry and exit of recorded searches (shallow complete searches, late iterations of deep ones, roots with a repeated history, "
                     "roots at the fifty-move boundary, mating roots) is replayed on the specification's game machine: each activation follows its parent by a legal "
                     "move, a null move, a verification / internal-deepening / horizon step under the conditions the search may take them; windows nest; depth "
                     "decreases; out of check quiescence visits captures and promotions only; nodes the rules decide (draw by rule away from the root, mate, stalemate) "
                     "visit nothing and return the rule's value; no value leaves [-MATE, MATE]; entries and exits are balanced")


MONITORS = {"order": order, "referee": referee, "tree": tree}

if __name__ == "__main__":
    args = sys.argv[1:]
    tier = "quick"
    if "--tier" in args:
        tier = args[args.index("--tier") + 1]
        args = [a for a in args if a not in ("--tier", tier)]
    names = args or sorted(MONITORS)
    rc = 0
    for n in names:
        try:
            rc |= run(n, MONITORS[n], tier)
        except InfraError as ex:
            sys.stderr.write("infrastructure problem: %s\n" % ex)
            rc |= 3
    sys.exit(rc)
