"""Contract-shaped properties: C13 evaluation symmetry, C14 evaluation purity/bounds, C20 time allocation."""
import json, os, shutil, sys
import core, build
from core import Check, InfraError, SPEC, VERIF

CLASSES = ["KPK", "KPsK", "KRKB", "KRKN", "KNNK", "KNNKP", "KQKR", "KNBK", "KRNKR", "KRBKR", "KBPsK", "KBPsKB", "KRKP", "KQKP", "KQKRPs", "KmmKm", "KXK", "general"]


def roots(ck):
    out = os.path.join(ck.work, "roots.fen")
    with open(out, "w") as f:
        for n in ("roots_general.fen", "roots_special.fen", "roots_lowmat.fen"):
            f.write("".join(l for l in open(os.path.join(VERIF, "data", n)) if l.strip() and not l.startswith("#")))
    return out


def shards_of(ck, stem):
    return sorted(os.path.join(ck.work, f) for f in os.listdir(ck.work) if f.startswith(stem + ".") and f.endswith(".ndjson"))


def c13(tier):
    ck = Check("C13", tier, "exploration")
    exe = build.build("plain")
    full = tier == "thorough"
    core.run_vh(exe, ["eval-mirror", "--roots", roots(ck), "--games", 3000 if full else 160, "--maxply", 150, "--per-class", 1500 if full else 600,
                      "--shards", 48 if full else 16, "--out", ck.work, "--stem", "mir", "--seed", core.seed()], timeout=3000)
    shards = shards_of(ck, "mir")
    viols, cnt, st = core.validate_shards(shards, module="EvalTrace.tla", cfg="EvalTrace.cfg")
    missing = [c for c in CLASSES if cnt.get(c, 0) == 0 and c != "KNNK"] + ([] if cnt.get("KNNK", 0) + cnt.get("skipped_insufficient", 0) > 0 else ["KNNK"])
    if missing or cnt.get("pairs", 0) == 0:
        raise InfraError("vacuous C13 run: classes never evaluated: %s" % missing)
    for v in viols:
        if v["prop"] == "C13":
            ck.discrepancy({"kind": v["kind"], "class": v["detail"]["class"]}, v)
        elif v["prop"] == "X":
            raise InfraError("harness mirror differs from the specification's mirror: %s" % json.dumps(v)[:300])
    seen = set()
    for s in shards:
        for line in open(s):
            seen.add(" ".join(json.loads(line)["fen"].split()[:4]))
    ck.cov["evaluations"] = cnt["pairs"] + cnt.get("skipped_insufficient", 0)
    ck.cov["distinct_nontrivial"] = len(seen)
    ck.cov["rule"] = ("pairs (position, mirrored position) evaluated by the real evaluator; the mirror is recomputed by the monitor from the specification's Mirror operator; "
                      "positions from engine games (capture-biased so that endgames are reached) and random legal placements of every specialised endgame material class "
                      "(classes transcribed in Endgames.tla; per-class pair counts below, every class > 0); positions that are draws by material are outside the quantifier "
                      "and skipped; distinct_nontrivial = distinct positions (4-field FEN) among the pairs")
    ck.cov["pairs_per_class"] = {c: cnt.get(c, 0) for c in CLASSES}
    ck.cov["skipped_insufficient_material"] = cnt.get("skipped_insufficient", 0)
    ck.cov["traces_validated_against_impl"] = st["shards"]
    ck.cov["states"] = st["distinct"]; ck.cov["transitions"] = st["generated"]
    for s in shards[:3]:
        ck.sample(json.loads(open(s).readline()))
    ck.assumptions += ["the evaluator's arithmetic is a black box: the contract is checked on generated inputs only", "Chess.tla Mirror"]
    return ck.finish()


def c14(tier):
    ck = Check("C14", tier, "model_checking")
    exe = build.build("plain")
    full = tier == "thorough"
    # D: the cache design, exhaustive over all histories of <= MaxOps operations
    d_ok = core.tlc_ok(core.tlc("EvalCache.tla", cfg="EvalCache.cfg", workers=4, timeout=600, metadir=os.path.join(ck.work, "md1")), "EvalCache")
    d_bad = core.tlc("EvalCache.tla", cfg="EvalCache_aswritten.cfg", workers=4, timeout=600, metadir=os.path.join(ck.work, "md2"))
    ck.add_states(d_ok["generated"], d_ok["distinct"])
    d_part = core.tlc("EvalCache.tla", cfg="EvalCache_partialkey.cfg", workers=4, timeout=600, metadir=os.path.join(ck.work, "md3"))
    ck.cov["design"] = dict(repaired_clear_states=d_ok["distinct"], clear_as_written_violates=d_bad["rc"] != 0, partial_key_hit_violates=d_part["rc"] != 0,
                            counterexample="Eval(k) ; Clear ; Eval(0) with k # 0 and k mod N = 0")
    # R: the counterexample histories concretised on the real table
    outp = os.path.join(ck.work, "cache.res")
    core.run_vh(exe, ["eval-cache-replay", "--out", outp, "--seed", core.seed(), "--structures", 8 if full else 3], timeout=3000)
    recs = [json.loads(l) for l in open(outp)]
    summ = [r for r in recs if r.get("summary")][0]
    if summ["zero_slot_structures"] == 0 or summ["collisions"] == 0 or summ["partial_low32"] == 0 or summ["partial_high32"] == 0:
        raise InfraError("could not concretise the cache histories: %s" % summ)
    for r in recs:
        if not r.get("summary"):
            ck.discrepancy({"kind": r["kind"], "history_kind": r["history_kind"].replace("_noclear", ""), "pawnless": r["detail"]["pawnless"]}, r)
    # R: behaviours of the hash-table model (HashTable.tla: insert / probe / clear / epoch / hashfull) replayed into the engine's real
    # template (1024-slot instantiation); a probe that reports a wrong hit or value breaks cache transparency for some history
    htd = core.tlc_ok(core.tlc("HashTable.tla", cfg="HashTable.cfg", workers=4, timeout=900, xmx="6g", metadir=os.path.join(ck.work, "md_ht")), "HashTable")
    ck.add_states(htd["generated"], htd["distinct"])
    hts = core.tlc_ok(core.tlc("HashTable.tla", cfg="HashTableSim.cfg", workers=4, timeout=900, metadir=os.path.join(ck.work, "md_hts"),
                               simulate="num=%d" % (5000 if full else 600), extra=["-depth", "16", "-seed", str(core.seed())]), "HashTable simulate")
    beh = sorted(set(x[3:] for x in hts["strings"] if x.startswith("HT ")))
    if len(beh) < 100:
        raise InfraError("hash table simulation produced %d behaviours" % len(beh))
    hin = os.path.join(ck.work, "ht.ndjson")
    open(hin, "w").write("\n".join(beh) + "\n")
    hout = os.path.join(ck.work, "ht.res")
    core.run_vh(exe, ["hashtable-replay", "--in", hin, "--out", hout])
    hrecs = [json.loads(l) for l in open(hout)]
    hsum = [r for r in hrecs if r.get("summary")][0]
    for r in hrecs:
        if r.get("summary"):
            continue
        d = r["detail"]
        if r["kind"] == "probe" and (d["expected"][0] != d["got"][0] or d["expected"][1] != d["got"][1]):
            ck.discrepancy({"kind": "hash_table_probe"}, dict(r, prop="C14"))
        else:
            ck.notes.append("hash table model mismatch outside C14 (epoch / hashfull): %s" % json.dumps(r)[:300])
    ck.cov["hash_table_model"] = dict(design_states=htd["distinct"], behaviours_replayed=hsum["behaviours"], operations=hsum["operations"])
    ck.cov["traces_validated_against_impl"] += hsum["behaviours"]
    # T: streams
    core.run_vh(exe, ["eval-pure", "--roots", roots(ck), "--games", 1500 if full else 100, "--maxply", 120, "--per-class", 400 if full else 40, "--fresh-every", 4,
                      "--shards", 16, "--out", ck.work, "--stem", "pure", "--seed", core.seed()], timeout=3000)
    shards = shards_of(ck, "pure")
    viols, cnt, st = core.validate_shards(shards, module="EvalTrace.tla", cfg="EvalTrace.cfg")
    if cnt.get("fresh_cmp", 0) == 0 or cnt.get("clears", 0) == 0 or any(cnt.get(c, 0) == 0 for c in CLASSES):
        raise InfraError("vacuous C14 stream: %s" % cnt)
    for v in viols:
        if v["prop"] == "C14":
            ck.discrepancy({"kind": v["kind"], "class": v["detail"]["class"]}, v)
    ck.add_states(st["generated"], st["distinct"])
    ck.cov["traces_validated_against_impl"] += st["shards"] + summ["histories"]
    ck.cov["evaluations"] = cnt["evals"] + summ["evaluations"]
    ck.cov["distinct_nontrivial"] = summ["histories"] + cnt["fresh_cmp"]
    ck.cov["rule"] = ("(1) design level: EvalCache.tla, all histories of <= 6 Eval/Clear operations over 8 keys and 4 slots (exhaustive); (2) its counterexample shapes concretised "
                      "on the real 2^18-slot table: pawn structures whose pawn key has zero low bits and pairs of structures colliding in one slot are found by search in this "
                      "process, as are pairs of different structures whose pawn keys agree in the low or in the high 32 bits (birthday search; a table comparing only part of the key "
                      "confuses them), then Eval/Clear/Eval histories are run on a new evaluator and every value compared with a fresh evaluator; (3) streams: a long-lived evaluator "
                      "with clear() interleaved against a fresh evaluator every 4th evaluation and on every pawnless position, over games and every endgame class; every value "
                      "must lie strictly inside the non-mate range. distinct_nontrivial = cache histories + comparisons against a fresh evaluator")
    ck.cov["cache_histories"] = summ["histories"]
    ck.cov["zero_slot_structure_example"] = summ["sample_zero"]
    ck.cov["collision_example"] = summ["sample_collision"]
    ck.cov["partial_key_pairs"] = dict(low32=summ["partial_low32"], high32=summ["partial_high32"])
    ck.cov["evals_per_class"] = {c: cnt.get(c, 0) for c in CLASSES}
    ck.cov["monitor_counters"] = {k: cnt[k] for k in ("evals", "fresh_cmp", "clears", "pawnless_after_clear")}
    ck.sample(dict(history=["eval " + summ["sample_zero"], "clear", "eval r3k3/8/8/8/8/8/8/R3K2R w - - 0 1"]))
    ck.sample(json.loads(open(shards[0]).readline()))
    ck.assumptions += ["transparency is decided at model-checking level for the cache design and by replay of its counterexamples; the bound |v| < mate range is exploration level",
                       "fresh evaluator = newly constructed PositionScorer"]
    return ck.finish()


def c20(tier):
    ck = Check("C20", tier, "exploration")
    exe = build.build("plain")
    full = tier == "thorough"
    cfg = os.path.join(ck.work, "TimeGen.cfg")
    open(cfg, "w").write("CONSTANTS RandomRems = %d RandomClocks = %d\nINIT GInit\nNEXT GNext\nINVARIANT GEmit\nCHECK_DEADLOCK FALSE\n" % ((200, 12) if full else (20, 3)))
    gen = core.tlc_ok(core.tlc("TimeGen.tla", cfg=cfg, workers=16, timeout=3000, xmx="6g", metadir=os.path.join(ck.work, "md_g"),
                               extra=["-seed", str(core.seed())]), "TimeGen")
    rows = sorted(set(s[4:] for s in gen["strings"] if s.startswith("CLK ")))
    if len(rows) < 1000:
        raise InfraError("clock grid too small: %d" % len(rows))
    grid = os.path.join(ck.work, "grid.txt")
    open(grid, "w").write("\n".join(rows) + "\n")
    core.run_vh(exe, ["time-replay", "--in", grid, "--out", ck.work, "--stem", "clk", "--shards", 16], timeout=3000)
    shards = shards_of(ck, "clk")
    viols, cnt, st = core.validate_shards(shards, module="TimeTrace.tla", cfg="TimeTrace.cfg")
    if cnt.get("calls", 0) == 0 or cnt.get("mono", 0) == 0:
        raise InfraError("vacuous C20 run")
    for v in viols:
        ck.discrepancy({"kind": v["kind"]}, v)
    ck.cov["evaluations"] = (5 * cnt["calls"]) // 2
    ck.cov["distinct_nontrivial"] = cnt["calls"]
    ck.cov["rule"] = ("clock states generated by TimeGen.tla: the full cross product of boundary values (remaining 0..24h incl. 0,1,2,9,10,99..., increments 0..10min, "
                      "movestogo 0..200, ply 0..1000, both colours) as chains of increasing remaining time with +1, +10%%, x2 steps and seeded random values; every call of "
                      "the first pass of TimeManager::calculateTime is a distinct clock state; the states of every second chain are evaluated in three orders (up the chain, after a call "
                      "for another ply and colour, down the chain) which must agree; the monitor checks 0 <= t, 10t <= 7*remaining and t non-decreasing along each chain "
                      "(%d chains, %d monotonicity steps)") % (cnt["chains"], cnt["mono"])
    ck.cov["traces_validated_against_impl"] = st["shards"]
    ck.cov["states"] = st["distinct"]; ck.cov["transitions"] = st["generated"]
    ck.sample(json.loads(open(shards[0]).readline()))
    ck.assumptions += ["the time manager's arithmetic is a black box: contract on generated inputs"]
    return ck.finish()


CHECKS = {"C13": c13, "C14": c14, "C20": c20}
