"""Checks for the rules-level properties C01 C02 C03 C04 C07 C15 C16 C17.

Two binding directions per property:
  R  spec -> code : TLC enumerates position families (Families.tla) with the legal sets / resulting FENs /
                    classifications the rules give; the harness replays them into the real engine.
  T  code -> spec : the harness drives the real engine (games, make/unmake trees, UCI position replays) and the
                    RulesTrace monitor recomputes every observation from the specification's own state.
"""
import json, os, subprocess, sys, time
from concurrent.futures import ThreadPoolExecutor
import core, build
from core import Check, InfraError, SPEC, VERIF

DATA = os.path.join(VERIF, "data")


# ------------------------------------------------------------------ R: families
def run_family(ck, exe, fam, full, apply, workers=8, nested=False):
    cfg = os.path.join(ck.work, "Families_%s.cfg" % fam)
    with open(cfg, "w") as f:
        f.write('CONSTANTS Fam = "%s" Full = %s WithApply = %s\nINIT Init\nNEXT Next\nINVARIANT Emit\nCHECK_DEADLOCK FALSE\n'
                % (fam, "TRUE" if full else "FALSE", "TRUE" if apply else "FALSE"))
    res = core.tlc_ok(core.tlc("Families.tla", cfg=cfg, workers=workers, timeout=3000, xmx="6g",
                               metadir=os.path.join(ck.work, "md_" + fam)), "Families " + fam)
    lines = sorted(set(s[4:] for s in res["strings"] if s.startswith("POS ")))
    if not lines:
        raise InfraError("family %s produced no positions" % fam)
    nd = os.path.join(ck.work, "fam_%s.ndjson" % fam)
    with open(nd, "w") as f:
        f.write("\n".join(lines) + "\n")
    outp = os.path.join(ck.work, "fam_%s.res" % fam)
    core.run_vh(exe, ["replay-legal", "--in", nd, "--out", outp] + (["--nested", 1] if nested else []), timeout=1800)
    recs = [json.loads(l) for l in open(outp)]
    summary = [r for r in recs if r.get("summary")][0]
    disc = [r for r in recs if not r.get("summary")]
    ck.add_states(res["generated"], res["distinct"])
    return dict(fam=fam, positions=summary["positions"], nontrivial=summary["nontrivial"], applied=summary.get("applied", 0), nested=summary.get("nested", 0),
                disc=disc, sample=json.loads(lines[len(lines) // 2]))


def families(ck, exe, fams, full, apply, nested=False):
    # the families are independent TLC runs: run them side by side
    w = max(2, 16 // len(fams))
    with ThreadPoolExecutor(max_workers=len(fams)) as ex:
        return list(ex.map(lambda f: run_family(ck, exe, f, full, apply, workers=w, nested=nested), fams))


# ------------------------------------------------------------------ T: traces
def trace(ck, exe, driver, stem, opts):
    args = [driver, "--out", ck.work, "--stem", stem, "--seed", core.seed() * 1000003 + (hash(stem) % 1000)]
    for k, v in opts.items():
        args += ["--" + k, v]
    r = core.run_vh(exe, args, timeout=1800)
    shards = sorted(p for p in (os.path.join(ck.work, f) for f in os.listdir(ck.work))
                    if os.path.basename(p).startswith(stem + ".") and p.endswith(".ndjson"))
    return shards


def validate(ck, shards):
    viols, cnt, st = core.validate_shards(shards)
    ck.add_states(st["generated"], st["distinct"])
    ck.cov["traces_validated_against_impl"] += st["shards"]
    return viols, cnt


def classify_move(d):
    """coarse move class of a discrepancy record, for signatures"""
    det = d.get("detail", {}) or {}
    if det.get("castle"):
        return "castling"
    if det.get("promo"):
        return "promotion"
    if det.get("ep"):
        return "enpassant"
    return "other"


def sig_of(d):
    det = d.get("detail", {}) or {}
    s = {"kind": d.get("kind")}
    if d.get("kind") in ("classification",):
        s["class"] = classify_move(d)
        w = det.get("wrong")
        if w:
            s["wrong"] = ",".join(sorted(w))
    if d.get("kind") == "predicate":
        s["wrong"] = ",".join(sorted(det.get("wrong", [])))
    if d.get("kind") == "not_restored":
        s["fields"] = ",".join(sorted(det.get("fields", []))) if det.get("fields") else ""
    return s


def take(ck, pid, discs, others):
    for d in discs:
        p = d.get("prop")
        if p == pid:
            ck.discrepancy(sig_of(d), d)
        else:
            others[p] = others.get(p, 0) + 1


def write_roots(ck, names):
    out = os.path.join(ck.work, "roots.fen")
    with open(out, "w") as f:
        for n in names:
            for line in open(os.path.join(DATA, n)):
                if line.strip() and not line.startswith("#"):
                    f.write(line)
    return out


def need(cnt, keys, what):
    zero = [k for k in keys if cnt.get(k, 0) == 0]
    if zero:
        raise InfraError("vacuous run (%s): no comparison of kind %s was evaluated" % (what, zero))


def note_others(ck, others):
    if others:
        ck.notes.append("discrepancies attributed to other properties seen in the same run (reported by their own checks): %s"
                        % json.dumps(others, sort_keys=True))


# ------------------------------------------------------------------ UCI sessions (SessionTrace monitor)
def uci_sessions(ck, exe, n_scripts, cmds_per_script, perft_depth=2):
    """the session part comes last in a check; when the engine does not survive a session (hang, crash) and the parts before it
    have already reported discrepancies, those are the verdict and the session part is recorded as not completed"""
    try:
        return uci_sessions_run(ck, exe, n_scripts, cmds_per_script, perft_depth)
    except InfraError as ex:
        if not ck.viol:
            raise
        ck.notes.append("UCI session part not completed (%s); the discrepancies found before it stand" % str(ex).splitlines()[0][:200])
        return [], {}


def uci_sessions_run(ck, exe, n_scripts, cmds_per_script, perft_depth=2):
    """real Uci::loop sessions (position / moves / printboard / perft / go / isready / unknown commands) validated by SessionTrace.tla"""
    import random
    rnd = random.Random(core.seed() + 77)
    roots = write_roots_named(ck, ["roots_general.fen", "roots_special.fen", "roots_lowmat.fen", "roots_mate.fen"], "sessroots.fen")
    poolf = os.path.join(ck.work, "sesspool.txt")
    core.run_vh(exe, ["pool", "--roots", roots, "--games", 20, "--sparse", 60, "--out", poolf, "--seed", core.seed() + 5])
    pool = [l.rstrip("\n").split("|") for l in open(poolf)]
    gf = os.path.join(ck.work, "sessgame.txt")
    core.run_vh(exe, ["long-game", "--plies", 120, "--out", gf, "--seed", core.seed() + 9])
    game = open(gf).read().split()
    traces = []
    for i in range(n_scripts):
        script = ["uci"] if i == 0 else []
        for j in range(cmds_per_script):
            p = rnd.choice(pool)
            mv = p[1].split()
            kind = rnd.randint(0, 5)
            if kind == 0:
                k = rnd.randint(0, len(game))
                script += ["ucinewgame", "position startpos" + (" moves " + " ".join(game[:k]) if k else ""), "printboard", "perft 1"]
            elif kind == 1:
                script += ["position fen " + p[0] + " moves " + rnd.choice(mv), "printboard", "perft %d" % rnd.randint(1, perft_depth)]
            elif kind == 2:
                script += ["position fen " + p[0], "go depth %d" % rnd.randint(1, 2), "moves " + rnd.choice(mv), "printboard"]
            elif kind == 3:
                script += ["position fen " + p[0], "perft %d" % rnd.randint(1, perft_depth), "isready", "printboard"]
            elif kind == 4:
                script += ["position fen " + p[0], "go movetime %d" % rnd.choice([1, 5, 20]), "printboard", rnd.choice(["foo", "position", "hash", "setoption name Polyglot Sample value best"])]
            else:
                script += ["ucinewgame", "printboard", "perft %d" % rnd.randint(1, perft_depth), "position fen " + p[0], "printboard"]
        sf = os.path.join(ck.work, "sess%d.uci" % i)
        open(sf, "w").write("\n".join(script) + "\n")
        tf = os.path.join(ck.work, "sess.%d.ndjson" % i)
        core.run_vh(exe, ["uci-session", "--script", sf, "--trace", tf, "--wait-ms", 120000], timeout=1800)
        traces.append(tf)
    viols, cnt, st = core.validate_shards(traces, module="SessionTrace.tla", cfg="SessionTrace.cfg", timeout=1800)
    ck.add_states(st["generated"], st["distinct"])
    ck.cov["traces_validated_against_impl"] += len(traces)
    for k in ("position", "printboard", "perft", "go"):
        if cnt.get(k, 0) == 0:
            raise InfraError("vacuous UCI session traces: %s" % cnt)
    ck.cov["uci_session_counters"] = cnt
    return viols, cnt


# ------------------------------------------------------------------ C01
def c01(tier):
    ck = Check("C01", tier, "model_checking")
    exe = build.build("plain")
    full = tier == "thorough"
    others = {}
    fam = families(ck, exe, ["F1", "F3", "F4", "F5", "F6"], full, False)
    npos = 0
    nontriv = 0
    for f in fam:
        take(ck, "C01", f["disc"], others)
        npos += f["positions"]
        nontriv += f["nontrivial"]
        ck.sample(dict(direction="spec->code", family=f["fam"], **f["sample"]))
    roots = write_roots(ck, ["roots_general.fen", "roots_special.fen", "roots_lowmat.fen"])
    games = 1200 if full else 96
    shards = trace(ck, exe, "games", "g", {"roots": roots, "games": games, "maxply": 90 if full else 70, "shards": 16 if not full else 48,
                                           "mv-pct": 0, "keys": 0, "repr": 0})
    # positions REACHED by special moves (the generator reads rights / en-passant state left by do_move): promotion, castling and
    # capture hungry games from roots where home rooks can be captured while the right is held
    rk = write_roots_named(ck, ["roots_rookcap.fen"], "rookcap.fen")
    shards += trace(ck, exe, "games", "k", {"roots": rk, "games": 400 if full else 64, "maxply": 12, "shards": 16, "mv-pct": 0, "keys": 0, "repr": 0, "policy": 4})
    # boundary material and forced replies: ten pieces of one kind next to a piece of the next kind (the piece lists are walked by the
    # king-safety part of the generator), and positions in check by a slider where a double pawn push interposes
    ten = write_roots_named(ck, ["roots_tenofakind.fen"], "ten.fen")
    shards += trace(ck, exe, "games", "n", {"roots": ten, "games": 24 if full else 12, "maxply": 6, "shards": 4, "mv-pct": 0, "keys": 0, "repr": 0, "roots-seq": 1})
    dpf = os.path.join(ck.work, "dpush.txt")
    core.run_vh(exe, ["nearmate-pool", "--out", dpf, "--refuted", 0, "--zugzwang", 0, "--dpush", 600 if full else 120, "--seed", core.seed() + 11], timeout=600)
    dproots = os.path.join(ck.work, "dpush.fen")
    open(dproots, "w").write("".join(l.split("|")[0] + "\n" for l in open(dpf) if l.split("|")[5].strip() == "nm-dpush"))
    shards += trace(ck, exe, "games", "d", {"roots": dproots, "games": 600 if full else 120, "maxply": 1, "shards": 8, "mv-pct": 0, "keys": 0, "repr": 0, "roots-seq": 1})
    viols, cnt = validate(ck, shards)
    need(cnt, ["legal_cmp", "n_ep", "n_check", "n_castle"], "C01 traces")
    take(ck, "C01", viols, others)
    # the `perft` command of the real front end against the number of behaviours of the rules (SessionTrace monitor)
    sv, scnt = uci_sessions(ck, exe, 16 if full else 6, 30 if full else 10, perft_depth=3 if full else 2)
    take(ck, "C01", sv, others)
    fens = core.distinct_fens(shards)
    ck.cov["evaluations"] = npos + cnt["legal_cmp"]
    ck.cov["distinct_nontrivial"] = nontriv + cnt["n_ep"] + cnt["n_check"] + cnt["n_castle"] + cnt["n_promo"]
    ck.cov["rule"] = ("legal-set comparisons (set equality and no duplicates). spec->code: every member of families F1 (en passant x pin/check), "
                      "F3 (castling x attackers/blockers), F4 (promotions x pins/checks), F6 (pins on every ray), both colours, filtered by RetroLegal, "
                      "enumerated by TLC (all members are distinct positions); non-trivial = en-passant right, side in check or castling right present. "
                      "code->spec: engine game walks from %d roots validated by the RulesTrace monitor; non-trivial = positions with an en-passant right, "
                      "in check, with a legal castling move or a legal promotion (counted by the monitor). Also: `perft d` through the real UCI front end, per-move "
                      "counts and total compared with the number of length-d behaviours of the rules (SessionTrace monitor)." % sum(1 for _ in open(roots)))
    ck.cov["family_positions"] = {f["fam"]: f["positions"] for f in fam}
    ck.cov["trace_positions"] = cnt["legal_cmp"]
    ck.cov["trace_distinct_positions"] = len(fens)
    ck.cov["monitor_counters"] = cnt
    ck.cov["exhaustive"] = False
    ck.sample(dict(direction="code->spec", first_lines=[json.loads(l) for l in open(shards[0]).readlines()[:3]]))
    ck.assumptions += ["the rules specification Chess.tla (checked against published perft counts by ChessSanity)",
                       "TLC, the JSON/IO community modules, the harness's flat JSON reader"]
    note_others(ck, others)
    return ck.finish()


# ------------------------------------------------------------------ C02
def uci_replay_shards(ck, exe, roots, games, stem="u"):
    return trace(ck, exe, "uci-replay", stem, {"roots": roots, "games": games, "maxply": 120, "shards": 16})


def c02(tier):
    ck = Check("C02", tier, "model_checking")
    exe = build.build("plain")
    full = tier == "thorough"
    others = {}
    fam = families(ck, exe, ["F1", "F3", "F4", "F5", "F7", "F9"] + (["F6", "F2", "F8"] if full else []), False, True)   # per-move expectations: quick-size families also in the thorough tier
    applied = 0
    for f in fam:
        take(ck, "C02", f["disc"], others)
        applied += f["applied"]
        ck.sample(dict(direction="spec->code", family=f["fam"], fen=f["sample"]["fen"], apply=f["sample"].get("apply", [])[:3]))
    roots = write_roots(ck, ["roots_general.fen", "roots_special.fen", "roots_lowmat.fen"])
    shards = trace(ck, exe, "games", "g", {"roots": roots, "games": 1500 if full else 128, "maxply": 100 if full else 80,
                                           "shards": 48 if full else 16, "mv-pct": 0, "keys": 0, "repr": 0, "policy": 4})
    shards += uci_replay_shards(ck, exe, roots, 600 if full else 64)
    viols, cnt = validate(ck, shards)
    need(cnt, ["fen_cmp", "do"], "C02 traces")
    take(ck, "C02", viols, others)
    # whole UCI sessions through the real command loop: position / moves / printboard (SessionTrace monitor)
    sv, scnt = uci_sessions(ck, exe, 16 if full else 6, 30 if full else 10, perft_depth=1)
    take(ck, "C02", sv, others)
    special = special_moves_played(shards)
    ck.cov["evaluations"] = applied + cnt["do"]
    ck.cov["distinct_nontrivial"] = len(special["distinct"])
    ck.cov["rule"] = ("FEN string equality after every played move. spec->code: every legal move of every family position (F1 en passant, F3 castling "
                      "incl. rook captures on home squares, F4 promotions) with the FEN the rules prescribe; code->spec: engine games (API do_move) and "
                      "`position ... moves ...` replays through Uci::position_command, all six FEN fields recomputed by the monitor after every move. "
                      "distinct_nontrivial = distinct (position, move) pairs played in the traces that are castling, en passant, promotion, "
                      "a capture on a rook home square or a king/rook move from its home square while the right is held")
    ck.cov["family_moves_applied"] = applied
    ck.cov["special_moves_played"] = special["counts"]
    ck.cov["monitor_counters"] = cnt
    ck.sample(dict(direction="code->spec", first_lines=[json.loads(l) for l in open(shards[-1]).readlines()[:4]]))
    ck.assumptions += ["Chess.tla Apply/Fen as the definition of the rules", "TLC and community modules"]
    note_others(ck, others)
    return ck.finish()


def special_moves_played(shards):
    """distinct special (position, move) pairs in the do events of the traces; classification from the FEN text only"""
    counts = dict(castling=0, enpassant=0, promotion=0, rook_home_capture=0, home_square_leave=0)
    distinct = set()
    for p in shards:
        fen = None
        for line in open(p):
            if '"e":"pos"' in line or '"e":"reset"' in line:
                fen = json.loads(line)["fen"]
            elif '"e":"do"' in line and fen:
                m = json.loads(line)["m"]
                f = fen.split()
                rows = f[0].split("/")
                def at(sq):
                    file, rank = ord(sq[0]) - 97, int(sq[1])
                    row = rows[8 - rank]
                    i = 0
                    for ch in row:
                        if ch.isdigit():
                            i += int(ch)
                        else:
                            if i == file:
                                return ch
                            i += 1
                        if i > file:
                            return "."
                    return "."
                pc, to = at(m[:2]), at(m[2:4])
                kind = None
                if pc in "Kk" and m[:2] in ("e1", "e8") and abs(ord(m[2]) - ord(m[0])) == 2:
                    kind = "castling"
                elif pc in "Pp" and m[2:4] == f[3]:
                    kind = "enpassant"
                elif len(m) == 5:
                    kind = "promotion"
                elif m[2:4] in ("a1", "h1", "a8", "h8") and to in "Rr" and f[2] != "-":
                    kind = "rook_home_capture"
                elif m[:2] in ("a1", "h1", "a8", "h8", "e1", "e8") and pc in "RrKk" and f[2] != "-":
                    kind = "home_square_leave"
                if kind:
                    counts[kind] += 1
                    distinct.add((" ".join(f[:4]), m))
                fen = None
    return dict(counts=counts, distinct=distinct)


# ------------------------------------------------------------------ C03
def c03(tier):
    ck = Check("C03", tier, "model_checking")
    exe = build.build("plain")
    full = tier == "thorough"
    others = {}
    roots = write_roots(ck, ["roots_general.fen", "roots_special.fen", "roots_lowmat.fen"])
    shards = trace(ck, exe, "trees", "t", {"roots": roots, "units": 480 if full else 32, "depth": 5 if full else 4, "branch": 3,
                                           "shards": 48 if full else 16, "prefix": 40, "nulls-pct": 35, "eval": 1})
    shards += trace(ck, exe, "search-preserves", "s", {"roots": roots, "runs": 600 if full else 80, "shards": 16})
    # make / unmake with half-move clocks 100..148 (the undo record carries the clock: every bit of it must come back)
    hc = write_roots_named(ck, ["roots_highclock.fen"], "highclock.fen")
    shards += trace(ck, exe, "trees", "h", {"roots": hc, "units": 200 if full else 48, "depth": 3, "branch": 3, "shards": 16, "prefix": 6, "nulls-pct": 20, "eval": 0})
    viols, cnt = validate(ck, shards)
    need(cnt, ["undo_cmp", "undo", "undonull"], "C03 traces")
    take(ck, "C03", viols, others)
    # make/unmake of every legal move of the family positions, and of every legal reply below it (two levels, complete)
    fam = families(ck, exe, ["F3", "F4", "F5", "F8", "F9"] + (["F1", "F2", "F7"] if full else []), False, False, nested=True)
    for f in fam:
        take(ck, "C03", f["disc"], others)
    ck.cov["nested_two_level_unmakes"] = sum(f["nested"] for f in fam)
    ck.cov["evaluations"] = cnt["undo_cmp"] + sum(f["nested"] for f in fam)
    ck.cov["distinct_nontrivial"] = len(core.distinct_fens(shards))
    ck.cov["rule"] = ("every unmake (undo_move / undo_null_move) is followed by a full observation (FEN, key, pawn key, piece lists, bitboards, "
                      "repetition/draw answers, static evaluation, generated move set, history length) compared by the monitor with the observation "
                      "recorded before the matching make, in seeded random make/unmake trees (depth<=5, null moves interleaved) after random game "
                      "prefixes, plus real Search::go and perft runs whose root position is observed before and after; distinct_nontrivial = distinct "
                      "positions observed in those trees; on every position of families F1 F3 F4 F5 F8 F9 (en passant, castling, promotions, home-rook captures, castling with an en-passant square set, promotions "
                      "next to like pieces that can be captured) every legal move and every legal reply below it is made and unmade with the full observation compared")
    ck.cov["monitor_counters"] = cnt
    ck.sample(dict(direction="code->spec", lines=[json.loads(l) for l in open(shards[0]).readlines()[:2]]))
    ck.assumptions += ["observations are compared with the engine's own earlier observation and the FEN with the specification's position",
                       "piece-list order is not an observable (compared as a board picture)"]
    note_others(ck, others)
    return ck.finish()


# ------------------------------------------------------------------ C04
def c04(tier):
    ck = Check("C04", tier, "model_checking")
    exe = build.build("plain")
    full = tier == "thorough"
    others = {}
    # D: the bookkeeping design (keys as atom sets, XOR as symmetric difference), every code path of make/unmake/null move,
    # exhaustively over nested sequences from small-material roots; two known-bad variants document what the invariant protects against
    design = core.tlc_ok(core.tlc("KeyAlgebra.tla", cfg="KeyAlgebra.cfg", workers=8, timeout=1800, xmx="6g", metadir=os.path.join(ck.work, "md_ka")), "KeyAlgebra")
    ck.add_states(design["generated"], design["distinct"])
    bad = {}
    for v in ("nullep", "rookcap"):
        r = core.tlc("KeyAlgebra.tla", cfg="KeyAlgebra_%s.cfg" % v, workers=4, timeout=600, metadir=os.path.join(ck.work, "md_ka_" + v))
        bad[v] = "violates IncrementalEqualsScratch" if "IncrementalEqualsScratch is violated" in r["out"] else "no violation"
    ck.cov["design"] = dict(KeyAlgebra_states=design["distinct"], bad_variants=bad)
    roots = write_roots(ck, ["roots_general.fen", "roots_special.fen", "roots_lowmat.fen"])
    shards = trace(ck, exe, "transpose", "x", {"roots": roots, "units": 600 if full else 64, "shards": 48 if full else 16})
    shards += trace(ck, exe, "trees", "t", {"roots": roots, "units": 240 if full else 32, "depth": 4, "branch": 3,
                                            "shards": 16, "prefix": 30, "nulls-pct": 40, "eval": 0})
    viols, cnt = validate(ck, shards)
    need(cnt, ["key_cmp", "n_revisit"], "C04 traces")
    take(ck, "C04", viols, others)
    ck.cov["evaluations"] = cnt["key_cmp"]
    ck.cov["distinct_nontrivial"] = cnt["n_revisit"]
    ck.cov["rule"] = ("every observed position logs the incremental key/pawn key and the keys of Position(fen()); the monitor keeps the maps "
                      "identity->key, key->identity, pawn placement->pawn key (per process) and flags any disagreement; drivers revisit positions on "
                      "purpose (transposed move orders, out-and-back manoeuvres, make/unmake trees with null moves, reload from FEN). "
                      "distinct_nontrivial = observations of an identity that had been seen before (revisits), counted by the monitor. "
                      "Design level: KeyAlgebra.tla (keys as atom sets, XOR as symmetric difference; every code path of do/undo/null) exhaustively over nested "
                      "make/unmake sequences of depth <= 3 from castling, promotion, capture and en-passant roots")
    ck.cov["monitor_counters"] = cnt
    ck.sample(dict(direction="code->spec", lines=[json.loads(l) for l in open(shards[0]).readlines()[:3]]))
    ck.assumptions += ["64-bit collision odds are ignored (a different position with the same key is reported)", "keys are per process"]
    note_others(ck, others)
    return ck.finish()


# ------------------------------------------------------------------ C07
def c07(tier):
    ck = Check("C07", tier, "model_checking")
    exe = build.build("plain")
    full = tier == "thorough"
    others = {}
    roots = write_roots(ck, ["roots_lowmat.fen", "roots_general.fen", "roots_special.fen"])
    low = write_roots_named(ck, ["roots_lowmat.fen"], "low.fen")
    shards = trace(ck, exe, "games", "g", {"roots": roots, "games": 1000 if full else 64, "maxply": 120, "shards": 48 if full else 16,
                                           "mv-pct": 0, "keys": 0, "repr": 0})
    shards += trace(ck, exe, "games", "r", {"roots": low, "games": 1500 if full else 96, "maxply": 400 if full else 160, "shards": 48 if full else 16,
                                            "mv-pct": 0, "keys": 0, "repr": 0, "policy": 2})
    shards += trace(ck, exe, "games", "q", {"roots": low, "games": 400 if full else 32, "maxply": 700 if full else 220, "shards": 16,
                                            "mv-pct": 0, "keys": 0, "repr": 0, "policy": 3})
    # repetitions and fifty-move answers beyond the 800th ply (the history table is a ring of 800 entries): a legal long game
    # as prefix (operations only), then shuffling play with full observations
    for gi, plies in enumerate([790, 1585] + ([2390, 795, 3190] if full else [])):
        gf = os.path.join(ck.work, "longprefix%d.txt" % gi)
        core.run_vh(exe, ["long-game", "--plies", plies, "--out", gf, "--seed", core.seed() * 17 + gi])
        start = os.path.join(ck.work, "startpos.fen")
        open(start, "w").write("rnbqkbnr/pppppppp/8/8/8/8/PPPPPPPP/RNBQKBNR w KQkq - 0 1\n")
        shards += trace(ck, exe, "games", "L%d" % gi, {"roots": start, "games": 6 if full else 3, "maxply": 60, "shards": 3, "mv-pct": 0, "keys": 0, "repr": 0,
                                                      "policy": 2, "prefix": gf})
    clocks = write_roots_named(ck, ["roots_clock.fen"], "clock.fen")
    shards += trace(ck, exe, "games", "c", {"roots": clocks, "games": 300 if full else 48, "maxply": 40, "shards": 16,
                                            "mv-pct": 0, "keys": 0, "repr": 0, "policy": 6})
    mates = write_roots_named(ck, ["roots_mate.fen"], "mate.fen")
    shards += trace(ck, exe, "games", "m", {"roots": mates, "games": 400 if full else 64, "maxply": 40, "shards": 16,
                                            "mv-pct": 0, "keys": 0, "repr": 0, "policy": 5})
    # the position right after a special move (castling - preferably answering a double pawn push -, promotion, en-passant or
    # other capture) made to occur three times: the keys stored in the history must be the keys the position has when it returns
    spec_roots = write_roots_named(ck, ["roots_special.fen", "roots_general.fen"], "specials.fen")
    open(spec_roots, "a").write("rnbqkbnr/pppppppp/8/8/8/8/PPPPPPPP/RNBQKBNR w KQkq - 0 1\nr3k2r/pppq1ppp/2npbn2/2b1p3/2B1P3/2NPBN2/PPPQ1PPP/R3K2R w KQkq - 0 1\n")
    shards += trace(ck, exe, "games", "s", {"roots": spec_roots, "games": 1200 if full else 128, "maxply": 70, "shards": 16,
                                            "mv-pct": 0, "keys": 0, "repr": 0, "policy": 7})
    # the same from roots where a home rook is captured (by a piece that is neither king nor rook) while its right is held, the capturing
    # side having no rights of its own: its king and rooks then take part in the shuffle
    rk = write_roots_named(ck, ["roots_rookcap.fen"], "rookcap.fen")
    shards += trace(ck, exe, "games", "k", {"roots": rk, "games": 600 if full else 96, "maxply": 40, "shards": 8,
                                            "mv-pct": 0, "keys": 0, "repr": 0, "policy": 7})
    viols, cnt = validate(ck, shards)
    need(cnt, ["pred_cmp", "n_rep", "n_rep3", "n_r50", "n_insuff", "n_check", "n_mate", "n_stale"], "C07 traces")
    take(ck, "C07", viols, others)
    ck.cov["evaluations"] = cnt["pred_cmp"]
    ck.cov["distinct_nontrivial"] = len(core.distinct_fens(shards, pred=lambda e: e.get("chk") or e.get("rep") or e.get("r50") or not e.get("mat", True)
                                                         or e.get("mate") or e.get("stale")))
    ck.cov["rule"] = ("at every ply of engine games (uniform, capture-biased, shuffling, quiet and special-move policies; low-material roots and roots with "
                      "clocks 90-99 so that repetition, 50-move and material draws actually occur) the eight predicate answers are recomputed by the monitor "
                      "from its own history of position identities; distinct_nontrivial = distinct positions in which at least one predicate is true "
                      "(check, repeated, threefold, 50-move, insufficient material, mate, stalemate)")
    ck.cov["monitor_counters"] = cnt
    ck.sample(dict(direction="code->spec", lines=[json.loads(l) for l in open(shards[0]).readlines()[:2]]))
    ck.assumptions += ["position identity = placement, side, rights, en-passant square as the property states", "games end at mate/stalemate/75 moves/fivefold"]
    note_others(ck, others)
    return ck.finish()


def write_roots_named(ck, names, fname):
    out = os.path.join(ck.work, fname)
    with open(out, "w") as f:
        for n in names:
            for line in open(os.path.join(DATA, n)):
                if line.strip() and not line.startswith("#"):
                    f.write(line)
    return out


# ------------------------------------------------------------------ C15 / C16 / C17 (per-move observations)
def per_move(pid, tier, level, cmpkey, fams, rule, extra_need=()):
    ck = Check(pid, tier, level)
    exe = build.build("plain")
    full = tier == "thorough"
    others = {}
    applied = 0
    if fams:
        fam = families(ck, exe, fams, False, True)    # per-move expectations: quick-size families also in the thorough tier (the full ones take hours)
        for f in fam:
            take(ck, pid, f["disc"], others)
            applied += f["applied"]
            ck.sample(dict(direction="spec->code", family=f["fam"], fen=f["sample"]["fen"], apply=f["sample"].get("apply", [])[:2]))
    roots = write_roots(ck, ["roots_general.fen", "roots_special.fen", "roots_lowmat.fen"])
    shards = trace(ck, exe, "games", "g", {"roots": roots, "games": 900 if full else 64, "maxply": 80 if full else 60, "shards": 48 if full else 16,
                                           "mv-pct": 100, "keys": 1 if pid == "C16" else 0, "repr": 1 if pid == "C16" else 0, "san": 1 if pid == "C17" else 0})
    shards += trace(ck, exe, "games", "h", {"roots": roots, "games": 300 if full else 32, "maxply": 60, "shards": 16, "policy": 4,
                                            "mv-pct": 100, "keys": 1 if pid == "C16" else 0, "repr": 0, "san": 1 if pid == "C17" else 0})
    # positions reached by the moves that change rights without moving a king or a rook: home rooks captured by pawns (promoting), knights,
    # bishops and queens while the right is held (C16: the reloaded FEN of such a position must carry the same keys as the played position)
    rk = write_roots_named(ck, ["roots_rookcap.fen"], "rookcap.fen")
    shards += trace(ck, exe, "games", "k", {"roots": rk, "games": 200 if full else 48, "maxply": 12, "shards": 8, "policy": 4,
                                            "mv-pct": 100, "keys": 1 if pid == "C16" else 0, "repr": 1 if pid == "C16" else 0, "san": 1 if pid == "C17" else 0})
    viols, cnt = validate(ck, shards)
    need(cnt, [cmpkey, "n_castlemove", "n_promomove", "n_epmove", "n_checkmove"] + list(extra_need), pid + " traces")
    take(ck, pid, viols, others)
    ck.cov["evaluations"] = cnt[cmpkey] + applied
    ck.cov["distinct_nontrivial"] = cnt["n_castlemove"] + cnt["n_promomove"] + cnt["n_epmove"] + cnt["n_checkmove"]
    ck.cov["rule"] = rule
    ck.cov["monitor_counters"] = cnt
    ck.cov["family_moves_applied"] = applied
    ck.sample(dict(direction="code->spec", lines=[json.loads(l) for l in open(shards[0]).readlines()[2:4]]))
    note_others(ck, others)
    return ck


def c15(tier):
    ck = per_move("C15", tier, "model_checking", "cls_cmp", ["F3", "F4", "F2", "F5"] + (["F1", "F6", "F7", "F8"] if tier == "thorough" else []),
                  "for every legal move of every visited position the engine's three answers (capture, quiet, gives check) are compared with IsCapture / "
                  "IsQuiet / GivesCheck = InCheck(Apply) of the specification. spec->code: all legal moves of families F3 (castling, incl. castling that "
                  "gives check along the f/d file), F4 (promotions with and without capture, checking via the new piece), F1 (en passant incl. discovered "
                  "checks through the captured pawn), F2 (en passant that gives check: own slider and enemy king anywhere), F5 (home-rook captures); code->spec: every legal move along engine games. distinct_nontrivial = move observations in traces "
                  "that are castling, promotion, en passant or checking moves (monitor counters)")
    ck.assumptions += ["Chess.tla as the definition of what happens when the move is played"]
    return ck.finish()


def c16(tier):
    ck = per_move("C16", tier, "model_checking", "uci_cmp", ["F3", "F7", "F4"] + (["F1", "F5", "F8"] if tier == "thorough" else []),
                  "per legal move: the engine's uci(m) is the move the specification denotes, parse_uci(uci(m)) is the same engine move, the packed word "
                  "decodes to the move's fields (castling code for castling); per position: Position(fen()) prints the identical FEN, has identical keys "
                  "and piece placement and compares equal; spec->code: family FENs printed by the specification are loaded and printed back by the engine; "
                  "exhaustive: all 64x64x5 (from,to,promotion) words and both castling codes through create_*/from/to/promotion/castling against Encode/Decode",
                  extra_need=("enc_cmp", "rt_cmp"))
    exe = build.build("plain")
    enc_exhaustive(ck, exe)
    ck.assumptions += ["ChessText.tla Fen/Uci/Encode as the definition of the text and word formats"]
    return ck.finish()


def enc_exhaustive(ck, exe):
    """all (from,to,promotion) triples and castling codes: spec table printed by TLC, engine fields by the harness"""
    res = core.tlc_ok(core.tlc("EncodeTable.tla", cfg="EncodeTable.cfg", workers=1, timeout=600,
                               metadir=os.path.join(ck.work, "md_enc")), "EncodeTable")
    rows = [s[4:] for s in res["strings"] if s.startswith("ENC ")]
    if not rows:
        raise InfraError("EncodeTable printed nothing")
    table = os.path.join(ck.work, "enc.table")
    with open(table, "w") as f:
        f.write("\n".join(rows) + "\n")
    out = os.path.join(ck.work, "enc.res")
    core.run_vh(exe, ["encode-table", "--in", table, "--out", out])
    recs = [json.loads(l) for l in open(out)]
    summ = [r for r in recs if r.get("summary")][0]
    for r in recs:
        if not r.get("summary"):
            ck.discrepancy({"kind": "encoding_table"}, r)
    ck.cov["encoding_words_checked"] = summ["words"]
    ck.cov["evaluations"] += summ["words"]
    ck.cov["exhaustive_encoding"] = True
    ck.add_states(max(1, res["generated"]), max(1, res["distinct"]))


def c17(tier):
    ck = per_move("C17", tier, "model_checking", "san_cmp", [],
                  "per legal move: the SAN string the engine prints is read by SanRead (PGN standard reading, decorations ignored) in the specification's "
                  "position and must denote exactly that move; the engine's own parse_san of the string must return that move. Roots include three or more "
                  "like pieces reaching one square, castling with check, promotions with capture and check. distinct_nontrivial = castling, promotion, "
                  "en-passant and checking moves observed (monitor counters)")
    exe = build.build("plain")
    others = {}
    roots = write_roots_named(ck, ["roots_san.fen"], "san.fen")
    shards = trace(ck, exe, "games", "s", {"roots": roots, "games": 600 if tier == "thorough" else 80, "maxply": 30, "shards": 16, "mv-pct": 100,
                                           "keys": 0, "repr": 0, "san": 1, "roots-seq": 1})
    viols, cnt = validate(ck, shards)
    take(ck, "C17", viols, others)
    ck.cov["evaluations"] += cnt["san_cmp"]
    ck.cov["san_family_comparisons"] = cnt["san_cmp"]
    ck.assumptions += ["ChessText.tla SanRead as the reading of SAN under the PGN standard"]
    note_others(ck, others)
    return ck.finish()


CHECKS = {"C01": c01, "C02": c02, "C03": c03, "C04": c04, "C07": c07, "C15": c15, "C16": c16, "C17": c17}
