"""Table-shaped properties: C11 attack tables (exhaustive), C12 KPK truth (exhaustive)."""
import hashlib, json, os, shutil, subprocess, sys, time
from concurrent.futures import ThreadPoolExecutor
import core, build
from core import Check, InfraError, SPEC, VERIF


def take_all(ck, pid, recs, sigf):
    for r in recs:
        if r.get("summary"):
            continue
        if r.get("prop") == pid:
            ck.discrepancy(sigf(r), r)


# ------------------------------------------------------------------ C11
def c11(tier):
    ck = Check("C11", tier, "model_checking")
    exe = build.build("plain")
    full = tier == "thorough"
    cfg = os.path.join(ck.work, "Attacks.cfg")
    with open(cfg, "w") as f:
        f.write("CONSTANT RandomPerSquare = %d\nINIT Init\nNEXT Next\nINVARIANT Emit\nCHECK_DEADLOCK FALSE\n" % (2000 if full else 40))
    res = core.tlc_ok(core.tlc("Attacks.tla", cfg=cfg, workers=16, timeout=3000, xmx="6g", metadir=os.path.join(ck.work, "md"),
                               extra=["-seed", str(core.seed())]), "Attacks")
    rows = [s for s in res["strings"] if len(s) > 2 and s[1] == " " and s[0] in "SNKPLFYCQ"]
    rows = sorted(set(rows), key=lambda r: (0 if (r[0] == "S" and r.split("|")[1].strip() == "") else 1))
    n_slider = sum(1 for r in rows if r[0] == "S")
    if n_slider < 107648:
        raise InfraError("attack table incomplete: %d slider rows" % n_slider)
    table = os.path.join(ck.work, "attacks.rows")
    with open(table, "w") as f:
        f.write("\n".join(rows) + "\n")
    outp = os.path.join(ck.work, "attacks.res")
    core.run_vh(exe, ["attack-table", "--in", table, "--out", outp, "--seed", core.seed(), "--noise", 8 if full else 2], timeout=1800)
    recs = [json.loads(l) for l in open(outp)]
    summ = [r for r in recs if r.get("summary")][0]
    take_all(ck, "C11", recs, lambda r: {"kind": r["kind"]})
    ck.add_states(max(res["generated"], summ["rows"]), max(res["distinct"], summ["rows"]))
    ck.cov["evaluations"] = summ["evaluations"]
    ck.cov["distinct_nontrivial"] = summ["rows"]
    ck.cov["exhaustive"] = True
    ck.cov["rule"] = ("every row of the geometric table printed by TLC from Attacks.tla is a distinct case: all 64 squares x all subsets of the relevant "
                      "blocker mask for bishop and rook (107,648 rows, complete), the same blockers with arbitrary extra pieces on squares off the slider's "
                      "rays (full-board occupancies), %d random full-board occupancies per slider and square chosen by TLC, queen = bishop | rook, and all "
                      "entries of KNIGHT_MASK, KING_MASK, pawn_attacks (both colours, both overloads), LINES, FULL_LINES, RAYS, CASTLING_PATHS, "
                      "QUEEN_CASTLING_BLOCK") % (2000 if full else 40)
    ck.cov["slider_rows"] = summ["slider_rows"]
    ck.cov["traces_validated_against_impl"] = 1
    ck.sample(rows[0]); ck.sample(rows[len(rows) // 2]); ck.sample(rows[-1])
    ck.assumptions += ["ray walks of Chess.tla/Attacks.tla as the geometric definition", "TLC"]
    return ck.finish()


# ------------------------------------------------------------------ C12
def kpk_truth(work, force=False):
    """derive (or load) the truth table from KPK.tla: 8 fix-point runs, one per pawn file, in parallel.
    The cache key is the hash of the specification only, never of /repo."""
    h = hashlib.sha256(open(os.path.join(SPEC, "KPK.tla"), "rb").read()).hexdigest()[:16]
    cdir = os.path.join(VERIF, ".cache", "kpk-" + h)
    rows = os.path.join(cdir, "rows.txt")
    meta = os.path.join(cdir, "meta.json")
    if os.path.exists(rows) and os.path.exists(meta) and not force:
        return rows, json.load(open(meta)), True
    tmp = os.path.join(work, "kpk")
    os.makedirs(tmp, exist_ok=True)

    def one(f):
        cfg = os.path.join(tmp, "f%d.cfg" % f)
        with open(cfg, "w") as fh:
            fh.write("CONSTANT PawnFiles = {%d}\nINIT Init\nNEXT Next\nCHECK_DEADLOCK FALSE\nINVARIANT Done\n" % f)
        out = os.path.join(tmp, "f%d.json" % f)
        res = core.tlc_ok(core.tlc("KPK.tla", cfg=cfg, env={"KPK_OUT": out}, workers=1, timeout=2400, xmx="4g",
                                   metadir=os.path.join(tmp, "md%d" % f)), "KPK file %d" % f)
        d = json.load(open(out))
        return f, d, res
    with ThreadPoolExecutor(max_workers=8) as ex:
        results = list(ex.map(one, range(8)))
    os.makedirs(cdir, exist_ok=True)
    gen = dist = wins = legal = 0
    iters = {}
    with open(rows + ".tmp", "w") as fh:
        for f, d, res in results:
            w = set(d["win"])
            for i in d["legal"]:
                fh.write("%s %d\n" % ("W" if i in w else "D", i))
            wins += len(w); legal += len(d["legal"]); iters[f] = d["iterations"]
            gen += res["generated"]; dist += res["distinct"]
    os.rename(rows + ".tmp", rows)
    m = dict(wins=wins, legal=legal, iterations=iters, generated=gen, distinct=dist, spec_hash=h)
    json.dump(m, open(meta, "w"))
    return rows, m, False


def c12(tier):
    ck = Check("C12", tier, "model_checking")
    exe = build.build("plain")
    rows, meta, cached = kpk_truth(ck.work, force=(tier == "thorough"))
    outp = os.path.join(ck.work, "kpk.res")
    core.run_vh(exe, ["kpk-table", "--in", rows, "--out", outp], timeout=1800)
    recs = [json.loads(l) for l in open(outp)]
    summ = [r for r in recs if r.get("summary")][0]
    if summ["positions"] != meta["legal"]:
        raise InfraError("kpk replay read %d of %d positions" % (summ["positions"], meta["legal"]))

    def sig(r):
        d = r["detail"]
        return {"kind": r["kind"], "wp": d["wp"], "wk": d["wk"], "bk": d["bk"], "stm": d["stm"], "pawn_colour": d["pawn_colour"]}
    take_all(ck, "C12", recs, sig)
    ck.add_states(max(meta["distinct"], meta["legal"]), max(meta["generated"], meta["legal"]))
    ck.cov["states"] = meta["legal"]
    ck.cov["transitions"] = max(meta["generated"], 1)
    ck.cov["evaluations"] = summ["engine_queries"]
    ck.cov["distinct_nontrivial"] = summ["positions"] * 2
    ck.cov["exhaustive"] = True
    ck.cov["traces_validated_against_impl"] = 1
    ck.cov["rule"] = ("every legal KPK position (white pawn: %d positions over the eight files, both sides to move; and its colour mirror with a black pawn) "
                      "is a distinct case; the truth is the least fix-point of the win relation computed by TLC from KPK.tla (%d wins; iterations per file %s; "
                      "%s); the engine is asked through bitbase::normalize+check and through endgame::score (>= VALUE_KNOWN_WIN for the pawn's side iff win, "
                      "otherwise a small non-negative draw score)") % (meta["legal"], meta["wins"], json.dumps(meta["iterations"]),
                                                                       "truth table loaded from the spec-hash keyed cache" if cached else "truth table derived in this run")
    for r in open(rows).readlines()[1000:1003]:
        ck.sample(r.strip())
    ck.assumptions += ["KQK and KRK with the promoted piece safe and Black not stalemated are wins (the terminal rule of KPK.tla)", "TLC"]
    return ck.finish()


CHECKS = {"C11": c11, "C12": c12}

if __name__ == "__main__":
    # setup: derive the spec-only caches
    w = core.workdir("setup")
    print(kpk_truth(w)[1])
