"""Table-shaped properties: C11 attack tables (exhaustive), C12 KPK truth (exhaustive)."""
import hashlib, json, os, shutil, subprocess, sys, time
from concurrent.futures import ThreadPoolExecutor
import core, build
from core import Check, InfraError, SPEC, VERIF


def take_all(ck, pid, recs, sigf):
    for r in recs:
        if r.get("summary"):
            continue
        if r.get("prop") == pid:
            ck.discrepancy(sigf(r), r)


# ------------------------------------------------------------------ C11
def c11(tier):
    ck = Check("C11", tier, "model_checking")
    exe = build.build("plain")
    full = tier == "thorough"
    cfg = os.path.join(ck.work, "Attacks.cfg")
    with open(cfg, "w") as f:
        f.write("CONSTANT RandomPerSquare = %d\nINIT Init\nNEXT Next\nINVARIANT Emit\nCHECK_DEADLOCK FALSE\n" % (2000 if full else 40))
    res = core.tlc_ok(core.tlc("Attacks.tla", cfg=cfg, workers=16, timeout=3000, xmx="6g", metadir=os.path.join(ck.work, "md"),
                               extra=["-seed", str(core.seed())]), "Attacks")
    rows = [s for s in res["strings"] if len(s) > 2 and s[1] == " " and s[0] in "SNKPLFYCQ"]
    rows = sorted(set(rows), key=lambda r: (0 if (r[0] == "S" and r.split("|")[1].strip() == "") else 1))
    n_slider = sum(1 for r in rows if r[0] == "S")
    if n_slider < 107648:
        raise InfraError("attack table incomplete: %d slider rows" % n_slider)
    table = os.path.join(ck.work, "attacks.rows")
    with open(table, "w") as f:
        f.write("\n".join(rows) + "\n")
    outp = os.path.join(ck.work, "attacks.res")
    core.run_vh(exe, ["attack-table", "--in", table, "--out", outp, "--seed", core.seed(), "--noise", 8 if full else 2], timeout=1800)
    recs = [json.loads(l) for l in open(outp)]
    summ = [r for r in recs if r.get("summary")][0]
    take_all(ck, "C11", recs, lambda r: {"kind": r["kind"]})
    ck.add_states(max(res["generated"], summ["rows"]), max(res["distinct"], summ["rows"]))
    ck.cov["evaluations"] = summ["evaluations"]
    ck.cov["distinct_nontrivial"] = summ["rows"]
    ck.cov["exhaustive"] = True
    ck.cov["rule"] = ("every row of the geometric table printed by TLC from Attacks.tla is a distinct case: all 64 squares x all subsets of the relevant "
                      "blocker mask for bishop and rook (107,648 rows, complete), the same blockers with arbitrary extra pieces on squares off the slider's "
                      "rays (full-board occupancies), %d random full-board occupancies per slider and square chosen by TLC, queen = bishop | rook, and all "
                      "entries of KNIGHT_MASK, KING_MASK, pawn_attacks (both colours, both overloads), LINES, FULL_LINES, RAYS, CASTLING_PATHS, "
                      "QUEEN_CASTLING_BLOCK") % (2000 if full else 40)
    ck.cov["slider_rows"] = summ["slider_rows"]
    ck.cov["traces_validated_against_impl"] = 1
    ck.sample(rows[0]); ck.sample(rows[len(rows) // 2]); ck.sample(rows[-1])
    ck.assumptions += ["ray walks of Chess.tla/Attacks.tla as the geometric definition", "TLC"]
    return ck.finish()


# ------------------------------------------------------------------ C12
def kpk_truth(work, force=False):
    """derive (or load) the truth table from KPK.tla: 8 fix-point runs, one per pawn file, in parallel.
    The cache key is the hash of the specification only, never of /repo."""
    h = hashlib.sha256(open(os.path.join(SPEC, "KPK.tla"), "rb").read()).hexdigest()[:16]
    cdir = os.path.join(VERIF, ".cache", "kpk-" + h)
    rows = os.path.join(cdir, "rows.txt")
    meta = os.path.join(cdir, "meta.json")
    if os.path.exists(rows) and os.path.exists(meta) and not force:
        return rows, json.load(open(meta)), True
    tmp = os.path.join(work, "kpk")
    os.makedirs(tmp, exist_ok=True)

    def one(f):
        cfg = os.path.join(tmp, "f%d.cfg" % f)
        with open(cfg, "w") as fh:
            fh.write("CONSTANT PawnFiles = {%d}\nINIT Init\nNEXT Next\nCHECK_DEADLOCK FALSE\nINVARIANT Done\n" % f)
        out = os.path.join(tmp, "f%d.json" % f)
        res = core.tlc_ok(core.tlc("KPK.tla", cfg=cfg, env={"KPK_OUT": out}, workers=1, timeout=2400, xmx="4g",
                                   metadir=os.path.join(tmp, "md%d" % f)), "KPK file %d" % f)
        d = json.load(open(out))
        return f, d, res
    with ThreadPoolExecutor(max_workers=8) as ex:
        results = list(ex.map(one, range(8)))
    os.makedirs(cdir, exist_ok=True)
    gen = dist = wins = legal = 0
    iters = {}
    with open(rows + ".tmp", "w") as fh:
        for f, d, res in results:
            w = set(d["win"])
            for i in d["legal"]:
                fh.write("%s %d\n" % ("W" if i in w else "D", i))
            wins += len(w); legal += len(d["legal"]); iters[f] = d["iterations"]
            gen += res["generated"]; dist += res["distinct"]
    os.rename(rows + ".tmp", rows)
    m = dict(wins=wins, legal=legal, iterations=iters, generated=gen, distinct=dist, spec_hash=h)
    json.dump(m, open(meta, "w"))
    return rows, m, False


def c12(tier):
    ck = Check("C12", tier, "model_checking")
    exe = build.build("plain")
    rows, meta, cached = kpk_truth(ck.work, force=(tier == "thorough"))
    outp = os.path.join(ck.work, "kpk.res")
    core.run_vh(exe, ["kpk-table", "--in", rows, "--out", outp], timeout=1800)
    recs = [json.loads(l) for l in open(outp)]
    summ = [r for r in recs if r.get("summary")][0]
    if summ["positions"] != meta["legal"]:
        raise InfraError("kpk replay read %d of %d positions" % (summ["positions"], meta["legal"]))

    def sig(r):
        d = r["detail"]
        return {"kind": r["kind"], "wp": d["wp"], "wk": d["wk"], "bk": d["bk"], "stm": d["stm"], "pawn_colour": d["pawn_colour"]}
    take_all(ck, "C12", recs, sig)
    ck.add_states(max(meta["distinct"], meta["legal"]), max(meta["generated"], meta["legal"]))
    ck.cov["states"] = meta["legal"]
    ck.cov["transitions"] = max(meta["generated"], 1)
    ck.cov["evaluations"] = summ["engine_queries"]
    ck.cov["distinct_nontrivial"] = summ["positions"] * 2
    ck.cov["exhaustive"] = True
    ck.cov["traces_validated_against_impl"] = 1
    ck.cov["rule"] = ("every legal KPK position (white pawn: %d positions over the eight files, both sides to move; and its colour mirror with a black pawn) "
                      "is a distinct case; the truth is the least fix-point of the win relation computed by TLC from KPK.tla (%d wins; iterations per file %s; "
                      "%s); the engine is asked through bitbase::normalize+check and through endgame::score (>= VALUE_KNOWN_WIN for the pawn's side iff win, "
                      "otherwise a small non-negative draw score)") % (meta["legal"], meta["wins"], json.dumps(meta["iterations"]),
                                                                       "truth table loaded from the spec-hash keyed cache" if cached else "truth table derived in this run")
    for r in open(rows).readlines()[1000:1003]:
        ck.sample(r.strip())
    ck.assumptions += ["KQK and KRK with the promoted piece safe and Black not stalemated are wins (the terminal rule of KPK.tla)", "TLC"]
    return ck.finish()



# ------------------------------------------------------------------ C18
def c18(tier):
    ck = Check("C18", tier, "model_checking")
    exe = build.build("plain")
    full = tier == "thorough"
    # spec sanity: the nine published test vectors and the structure of the constant table
    san = core.tlc_ok(core.tlc("PolyglotSanity.tla", cfg="PolyglotSanity.cfg", workers=1, timeout=600, metadir=os.path.join(ck.work, "md_s")), "PolyglotSanity")
    if "PolyglotSanity OK" not in san["strings"]:
        raise InfraError("PolyglotSanity did not complete")
    # R: covering family
    fam = core.tlc_ok(core.tlc("PolyglotFam.tla", cfg="PolyglotFam.cfg", workers=16, timeout=1800, xmx="6g", metadir=os.path.join(ck.work, "md_f")), "PolyglotFam")
    lines = sorted(set(x[3:] for x in fam["strings"] if x.startswith("PG ")))
    if len(lines) < 1000:
        raise InfraError("polyglot family too small: %d" % len(lines))
    nd = os.path.join(ck.work, "pgfam.ndjson")
    open(nd, "w").write("\n".join(lines) + "\n")
    outp = os.path.join(ck.work, "pgfam.res")
    core.run_vh(exe, ["polyglot-replay", "--in", nd, "--out", outp])
    recs = [json.loads(l) for l in open(outp)]
    summ = [r for r in recs if r.get("summary")][0]
    take_all(ck, "C18", recs, lambda r: {"kind": r["kind"], "ep": r["detail"].get("ep"), "ep_counts": r["detail"].get("ep_counts")})
    ck.add_states(fam["generated"], fam["distinct"])
    # T: engine games
    roots = os.path.join(ck.work, "roots.fen")
    with open(roots, "w") as f:
        for n in ("roots_general.fen", "roots_special.fen"):
            f.write("".join(l for l in open(os.path.join(VERIF, "data", n)) if l.strip() and not l.startswith("#")))
    core.run_vh(exe, ["polyglot-walk", "--roots", roots, "--games", 4000 if full else 320, "--maxply", 90, "--shards", 16, "--out", ck.work, "--stem", "pg",
                      "--seed", core.seed()])
    shards = sorted(os.path.join(ck.work, f) for f in os.listdir(ck.work) if f.startswith("pg.") and f.endswith(".ndjson"))
    viols, cnt, st = core.validate_shards(shards, module="PolyglotTrace.tla", cfg="PolyglotTrace.cfg")
    ck.add_states(st["generated"], st["distinct"])
    ck.cov["traces_validated_against_impl"] = st["shards"]
    if cnt.get("pg", 0) == 0 or cnt.get("epcounts", 0) == 0 or cnt.get("castle", 0) == 0:
        raise InfraError("vacuous polyglot trace: %s" % cnt)
    for v in viols:
        ck.discrepancy({"kind": v["kind"], "ep": v["detail"].get("ep"), "ep_counts": v["detail"].get("ep_counts")}, v)
    eps = [json.loads(l) for l in lines if '"ep":true' in l]
    ck.cov["evaluations"] = summ["positions"] + cnt["pg"]
    ck.cov["distinct_nontrivial"] = len(lines)
    ck.cov["rule"] = ("spec->code: every member of the covering family enumerated by TLC (each non-king piece on each square with several king placements, kings on every "
                      "square, all 16 castling-right sets, every en-passant situation: capturer left/right/both/none, a- and h-file, pinned capturer; both colours; "
                      "all RetroLegal and distinct) with the key Polyglot!Key assigns; code->spec: positions along engine games with the engine's key recomputed by "
                      "the PolyglotTrace monitor (%d positions, %d with an en-passant square, %d where it counts). The specification itself is checked against the "
                      "nine published test vectors") % (cnt["pg"], cnt["ep"], cnt["epcounts"])
    ck.cov["family_positions"] = len(lines)
    ck.cov["family_positions_with_ep"] = len(eps)
    ck.cov["monitor_counters"] = cnt
    ck.sample(json.loads(lines[0])); ck.sample(eps[0] if eps else {}); ck.sample(json.loads(open(shards[0]).readline()))
    ck.assumptions += ["the 781 Random64 constants as transcribed from the pinned commit into PolyglotRandom.tla (published order), cross-checked by the nine "
                       "published vectors; a constant already wrong at the pinned commit and not touched by those vectors would not be detected offline",
                       "ChessText.tla ParseFen for the engine's FEN strings"]
    return ck.finish()


# ------------------------------------------------------------------ C19
def c19(tier):
    ck = Check("C19", tier, "model_checking")
    exe = build.build("plain")
    full = tier == "thorough"
    # D: the reader loop as a state machine: the repaired loop loads exactly the complete records; the loop as written does not
    d_ok = core.tlc_ok(core.tlc("Book.tla", cfg="BookReader.cfg", workers=1, timeout=300, metadir=os.path.join(ck.work, "md_r")), "BookReader")
    d_bad = core.tlc("Book.tla", cfg="BookReader_aswritten.cfg", workers=1, timeout=300, metadir=os.path.join(ck.work, "md_r2"))
    ck.add_states(d_ok["generated"], d_ok["distinct"])
    ck.cov["design_reader_loop"] = dict(repaired_states=d_ok["distinct"], as_written_violates=d_bad["rc"] != 0)
    # R: concrete files
    cfg = os.path.join(ck.work, "BookFiles.cfg")
    open(cfg, "w").write("CONSTANT Full = %s\nINIT Init\nNEXT Next\nINVARIANT Emit\nCHECK_DEADLOCK FALSE\n" % ("TRUE" if full else "FALSE"))
    res = core.tlc_ok(core.tlc("BookFiles.tla", cfg=cfg, workers=16, timeout=3000, xmx="8g", metadir=os.path.join(ck.work, "md_b")), "BookFiles")
    lines = sorted(set(x[5:] for x in res["strings"] if x.startswith("BOOK ")))
    if len(lines) < 100:
        raise InfraError("book family too small: %d" % len(lines))
    ck.add_states(res["generated"], res["distinct"])
    bdir = os.path.join(ck.work, "books")
    os.makedirs(bdir, exist_ok=True)
    flat = os.path.join(ck.work, "books.txt")
    nres = 0
    with open(flat, "w") as fo:
        for i, l in enumerate(lines):
            b = json.loads(l)
            path = os.path.join(bdir, "b%06d.bin" % i)
            open(path, "wb").write(bytes.fromhex(b["bytes"]))
            keys = {}
            for e in b["entries"]:
                keys.setdefault(e["key"], 0)
            fo.write("FILE %s %d %d\n" % (path, b["nrecords"], len(keys)))
            for e in b["entries"]:
                fo.write("ENTRY %s %s %d" % (e["fen"].replace(" ", "_"), e["key"], len(e["records"])))
                for uci, w, code, dec in e["records"]:
                    pc = (code >> 12) & 7
                    fo.write(" %d %d %d %d %s" % ((code >> 6) & 63, code & 63, pc + 1 if pc else 0, w, dec))
                fo.write("\nBEST %d %s\n" % (len(e["best"]), " ".join(e["best"])))
                if e["pick"]:
                    fo.write("PICK %d %s\nEND\n" % (len(e["pick"]), " ".join(e["pick"])))
                else:   # large sums: the cumulative weights define the intervals; the harness checks a sample of calls
                    fo.write("CUM %d %s\nEND\n" % (len(e["cum"]), " ".join(str(c) for c in e["cum"])))
                nres += len(e["pick"])
    outp = os.path.join(ck.work, "books.res")
    core.run_vh(exe, ["book-replay", "--in", flat, "--out", outp, "--uci", 1], timeout=3000)
    recs = [json.loads(l) for l in open(outp)]
    summ = [r for r in recs if r.get("summary")][0]
    if summ["files"] != len(lines):
        raise InfraError("book replay processed %d of %d files" % (summ["files"], len(lines)))

    def sig(r):
        d = r.get("detail", {})
        s = {"kind": r["kind"]}
        if r["kind"] == "loaded_records":
            s["extra"] = d["loaded_records"] - d["file_records"]
        if r["kind"] == "random_policy":
            s["sample_zero"] = d.get("sample") == 0
        return s
    take_all(ck, "C19", recs, sig)
    shutil.rmtree(bdir, ignore_errors=True)
    ck.cov["evaluations"] = summ["lookups"] + summ["files"]
    ck.cov["distinct_nontrivial"] = len(lines)
    ck.cov["traces_validated_against_impl"] = len(lines)
    ck.cov["residues_checked"] = summ["residues"]
    ck.cov["residues_total"] = nres
    ck.cov["uci_runs"] = summ["uci_runs"]
    ck.cov["rule"] = ("every book file enumerated by TLC from BookFiles.tla is a distinct case: records for one or two real positions (keys by Polyglot!Key) with 1..3 moves "
                      "(castling stored king-takes-rook, promotions with and without capture, a rook move e1-h1 that is not castling, ordinary moves), weights from "
                      "{0,1,2,5}, optional trailing partial record, the empty file and partial-only files. The real reader loads each file; the loaded map is compared "
                      "record by record; get_best_move must return a maximal-weight move; get_random_move is checked as a decision function for every sample residue "
                      "0..sum-1 (the sample of each call is predicted from a copy of the generator state), which gives probability proportional to weight under the "
                      "trusted uniformity of std::mt19937; the same books are also used through setoption / position / go")
    ck.sample(json.loads(lines[0])); ck.sample(json.loads(lines[len(lines) // 2]))
    ck.assumptions += ["uniformity of std::mt19937 + uniform_int_distribution (probabilities follow from interval lengths)",
                       "weight vectors with all weights zero are excluded (proportional choice is undefined; the engine asserts sum > 0)"]
    return ck.finish()


CHECKS = {"C11": c11, "C12": c12, "C18": c18, "C19": c19}

if __name__ == "__main__":
    # setup: derive the spec-only caches
    w = core.workdir("setup")
    print(kpk_truth(w)[1])
