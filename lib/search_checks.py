"""Search-session properties C05 C06 C08 C09 C10.

D  design level : SearchSession.tla exhaustively (all interleavings of reader / searcher / clock / table poisoning), safety and liveness;
                  the same specification with the as-written constants documents each defect.
R  spec -> code : the model's stop placements (every label of the searcher, every one of the first K node visits) and boundary sessions are
                  replayed against the real Search object (in-process, stop injected at the hook point) and against the real two-thread
                  front end (scheduler sink parks the search thread).
T  code -> spec : every run's real stdout and hook counters are validated by the SearchTrace monitor against the rules specification
                  (legality of bestmove / pv), the session properties and the mate oracle.
"""
import json, os, subprocess, time, random, shutil, sys
import core, build
from core import Check, InfraError, SPEC, VERIF

DATA = os.path.join(VERIF, "data")
LABELS = ["before_thread_start", "go_entry", "after_init", "after_reset", "iter_start", "iter_end", "before_best", "limits"]


def all_roots(ck, names=("roots_general.fen", "roots_special.fen", "roots_lowmat.fen", "roots_mate.fen")):
    out = os.path.join(ck.work, "roots.fen")
    with open(out, "w") as f:
        for n in names:
            f.write("".join(l for l in open(os.path.join(DATA, n)) if l.strip() and not l.startswith("#")))
    return out


def make_pool(ck, exe, games, sparse, seed_off=0, attack=0):
    out = os.path.join(ck.work, "pool.txt")
    core.run_vh(exe, ["pool", "--roots", all_roots(ck), "--games", games, "--sparse", sparse, "--attack", attack, "--out", out, "--seed", core.seed() + seed_off])
    pool = []
    for l in open(out):
        f = l.rstrip("\n").split("|")
        pool.append(dict(fen=f[0], moves=f[1].split(), n=int(f[2]), chk=f[3] == "1", mate1=f[4] == "1", src=f[5]))
    if len(pool) < 50:
        raise InfraError("position pool too small")
    return pool


def plan_line(fen, go, sm=(), tt="warm", stop_id="", stop_n=0, tag="run", moves=()):
    return "%s|%s|%s|%s|%s|%s|%d|%s" % (fen, " ".join(moves), go, " ".join(sm), tt, stop_id, stop_n, tag)


def run_plan(ck, exe, plan, stem, shards=16, filt="", keep_every=50, timeout=3000, env_extra=None, mate_maxn=None, procs=1):
    """run the plan through search-runs (procs > 1: the plan is dealt round-robin to that many harness processes, each with its own
    table and evaluator, running concurrently) and validate every logged run with the SearchTrace monitor"""
    if procs > 1:
        from concurrent.futures import ThreadPoolExecutor
        parts = [plan[i::procs] for i in range(procs)]
        parts = [(i, pl) for i, pl in enumerate(parts) if pl]
        with ThreadPoolExecutor(max_workers=len(parts)) as ex:
            res = list(ex.map(lambda ip: exec_plan(ck, exe, ip[1], "%s%d" % (stem, ip[0]), max(1, shards // len(parts)), filt, keep_every, timeout, env_extra), parts))
        info = dict(runs=sum(r[0]["runs"] for r in res), logged=0, crashes=[c for r in res for c in r[0]["crashes"]])
        sh = [x for r in res for x in r[1]]
    else:
        info, sh = exec_plan(ck, exe, plan, stem, shards, filt, keep_every, timeout, env_extra)
    env = {}
    if mate_maxn:
        env["MATE_MAXN"] = str(mate_maxn)
    viols, cnt, st = core.validate_shards(sh, module="SearchTrace.tla", cfg="SearchTrace.cfg", timeout=3000, xmx="4g", env_extra=env)
    ck.add_states(st["generated"], st["distinct"])
    info["logged"] = sum(1 for p in sh for l in open(p) if '"e":"go"' in l)
    ck.cov["traces_validated_against_impl"] += info["logged"]
    return viols, cnt, info, sh


def exec_plan(ck, exe, plan, stem, shards, filt, keep_every, timeout, env_extra):
    pf = os.path.join(ck.work, stem + ".plan")
    open(pf, "w").write("\n".join(plan) + "\n")
    base = ["search-runs", "--plan", pf, "--out", ck.work, "--stem", stem, "--shards", shards, "--seed", core.seed(), "--mark", 1]
    if filt:
        base += ["--filter", filt, "--keep-every", keep_every]
    crashes = []
    skip, total_runs, logged = 0, 0, 0
    while True:
        args = base + (["--skip", skip, "--append", 1] if skip else [])
        r = core.run_vh(exe, args, timeout=timeout, check=False, env=env_extra)
        if r.returncode == 0:
            info = json.loads(r.stdout.strip().splitlines()[-1])
            total_runs += info["runs"] - skip
            logged += info["logged"]
            break
        # the harness died inside a run: abnormal exit is an observation of that run, not an infrastructure failure
        marks = [l for l in r.stderr.splitlines() if l.startswith("RUN ")]
        if not marks:
            raise InfraError("harness failed rc=%d before any run: %s" % (r.returncode, r.stderr[-2000:]))
        idx = int(marks[-1].split()[1])
        fld = plan[idx].split("|")
        crashes.append(dict(prop=None, kind="crash", fen=fld[0], detail=dict(go=fld[2], searchmoves=fld[3], tt=fld[4], stop_id=fld[5], tag=fld[7], exit=r.returncode,
                                                                             stderr_tail="\n".join(l for l in r.stderr.splitlines() if not l.startswith("RUN "))[-1500:])))
        total_runs += idx + 1 - skip
        skip = idx + 1
        hangs = sum(1 for c in crashes if "RUN-HUNG" in c["detail"].get("stderr_tail", ""))
        if len(crashes) > 200 or skip >= len(plan) or hangs >= 4:      # four runs that had to be abandoned are verdict enough
            break
    info = dict(runs=total_runs, logged=logged, crashes=crashes)
    sh = sorted(os.path.join(ck.work, f) for f in os.listdir(ck.work) if f.startswith(stem + ".") and f.endswith(".ndjson"))
    return info, sh


def take_crashes(ck, pid, info, others, covered=True):
    """a run during which the engine died: no answer was given. Counted for the properties that promise an answer."""
    for c in info.get("crashes", []):
        if covered:
            c = dict(c, prop=pid)
            ck.discrepancy({"kind": "crash", "go": c["detail"]["go"], "stop_id": c["detail"]["stop_id"], "tt": c["detail"]["tt"]}, c)
        else:
            others["C10"] = others.get("C10", 0) + 1


def design(ck, extra_cfgs=()):
    """exhaustive design-level runs; the repaired constants must satisfy every property"""
    res = {}
    for cfg in ("SearchSession.cfg", "SearchSession_2go.cfg") + tuple(extra_cfgs):
        r = core.tlc_ok(core.tlc("SearchSession.tla", cfg=cfg, workers=8, timeout=1200, xmx="6g", metadir=os.path.join(ck.work, "md_" + cfg)), cfg)
        ck.add_states(r["generated"], r["distinct"])
        res[cfg] = dict(states=r["distinct"], transitions=r["generated"])
    return res


def design_as_written(ck, names):
    """the same specification with the constants of the pinned commit: recorded (which invariant fails), never a verdict about the code"""
    out = {}
    for n in names:
        r = core.tlc("SearchSession.tla", cfg="SearchSession_%s.cfg" % n, workers=4, timeout=600, metadir=os.path.join(ck.work, "md_aw_" + n))
        viol = [l for l in r["out"].splitlines() if "is violated" in l]
        out[n] = viol[0].strip() if viol else "no violation"
    return out


def sig(v):
    d = v.get("detail", {}) or {}
    s = {"kind": v.get("kind")}
    for k in ("stop_id", "tt"):
        if k in d and v.get("kind") in ("stop_lost", "illegal_bestmove", "bestmove_count", "iteration_started_after_stop"):
            s[k] = d[k]
    if v.get("kind") == "per_depth_array_index":
        s["go"] = d.get("go")
    if v.get("kind") == "false_mate_announcement":
        s["y"] = d.get("y")
    return s


def take(ck, pid, viols, others):
    for v in viols:
        if v.get("prop") == pid:
            ck.discrepancy(sig(v), v)
        else:
            others[v.get("prop")] = others.get(v.get("prop"), 0) + 1


def note_others(ck, others):
    if others:
        ck.notes.append("discrepancies attributed to other properties seen in the same run (reported by their own checks): %s" % json.dumps(others, sort_keys=True))


def first_run(sh):
    lines = []
    for l in open(sh[0]):
        lines.append(json.loads(l))
        if '"e":"end"' in l:
            break
    return lines


# ------------------------------------------------------------------ C05
def c05(tier):
    ck = Check("C05", tier, "model_checking")
    exe = build.build("plain")
    full = tier == "thorough"
    rnd = random.Random(core.seed())
    ck.cov["design"] = design(ck)
    ck.cov["design_as_written"] = design_as_written(ck, ["no_fallback", "no_guard"])
    pool = make_pool(ck, exe, 400 if full else 40, 1500 if full else 200)
    quiet = [p for p in pool if p["n"] >= 2]
    sparse = [p for p in pool if p["src"] == "sparse" and p["n"] >= 2]
    plan = []
    n_basic = 3000 if full else 180
    for i in range(n_basic):
        p = rnd.choice(pool)
        plan.append(plan_line(p["fen"], "depth %d" % rnd.choice([1, 1, 2, 2, 3] + ([4, 5] if full else [])), tt=rnd.choice(["fresh", "warm", "poison", "poison"]), tag="basic"))
    # stops that arrive before / while the first iterations run: every label, every one of the first K node visits
    K = 300 if full else 40
    for lab in LABELS:
        for rep in range(12 if full else 2):
            p = rnd.choice(quiet)
            if lab == "limits":
                p = rnd.choice([q for q in quiet if q["n"] >= 15 and q["src"] != "sparse"] or quiet)
            plan.append(plan_line(p["fen"], "infinite" if lab != "before_best" else "depth 2", tt="fresh", stop_id=lab, stop_n=1 if lab in LABELS[:4] + ["before_best"] else rnd.randint(1, 3), tag="early"))
    for k in range(1, K + 1):
        p = rnd.choice(quiet)
        plan.append(plan_line(p["fen"], "infinite", tt=rnd.choice(["fresh", "poison"]), stop_id=rnd.choice(["node", "qnode"]), stop_n=k, tag="early"))
    # certainly expired or tiny budgets
    for go in ["wtime 1 btime 1", "wtime -5 btime -5", "movetime 1", "wtime 1 btime 1 winc 0 binc 0 movestogo 1", "nodes 1", "nodes 50",
               "wtime 30 btime 30 winc 5 binc 5", "movetime 5 depth 3",
               # clock with many moves to go (beyond the allocator's own horizon of 50)
               "wtime 600 btime 600 movestogo 51", "wtime 600 btime 600 movestogo 60", "wtime 400 btime 400 winc 10 binc 10 movestogo 200"]:
        for rep in range(10 if full else 3):
            p = rnd.choice(pool)
            plan.append(plan_line(p["fen"], go, tt=rnd.choice(["fresh", "warm", "poison"]), tag="budget"))
    for i in range(300 if full else 30):
        p = rnd.choice(quiet)
        sm = rnd.sample(p["moves"], rnd.randint(1, min(3, len(p["moves"]))))
        plan.append(plan_line(p["fen"], "depth %d" % rnd.randint(1, 3), sm=sm, tt=rnd.choice(["warm", "poison"]), tag="sm"))
    # late stops: deep searches stopped far inside the tree (below null moves, re-searches, reductions), also with the root restricted
    # to a castling move - the announced move is spelled from the searcher's own copy of the position, which every abort path must
    # have restored
    def castlings(p):
        f = p["fen"].split()
        cand = {"K": "e1g1", "Q": "e1c1"} if f[1] == "w" else {"k": "e8g8", "q": "e8c8"}
        return [m for r, m in cand.items() if r in f[2] and m in p["moves"]]
    castle = [p for p in pool if castlings(p)]
    if len(castle) < 3:
        raise InfraError("position pool without castling positions")
    for i in range(500 if full else 48):
        p = rnd.choice(castle if i % 4 else quiet)
        sm = [rnd.choice(castlings(p))] if (i % 4 and i % 2) else []
        plan.append(plan_line(p["fen"], "depth %d" % rnd.randint(9, 14), sm=sm, tt=rnd.choice(["fresh", "warm"]), stop_id=rnd.choice(["node", "node", "qnode"]),
                              stop_n=rnd.randint(1500, 150000), tag="late"))
    # a second go WITHOUT a position command in between (same table epoch: what the first search stored for the root - exact, or only a
    # bound after an aspiration fail-high - is trusted by the second one): deeper first, then shallower and equal depths
    for i in range(400 if full else 60):
        p = rnd.choice(quiet)
        d1 = rnd.choice([4, 5, 5, 6])
        plan.append(plan_line(p["fen"], "depth %d" % d1, tt="fresh" if i % 3 == 0 else "warm", tag="again"))
        plan.append(plan_line(p["fen"], "depth %d" % rnd.randint(1, d1), tt="again", tag="again"))
        if i % 2:
            plan.append(plan_line(p["fen"], rnd.choice(["depth 1", "movetime 30", "nodes 3000"]), tt="again", tag="again"))
    # searches from positions WITH a game history (repetition cuts inside the tree, fifty-move clocks): deeper, pv-heavy runs
    hp = os.path.join(ck.work, "histpool.txt")
    core.run_vh(exe, ["pool-hist", "--roots", all_roots(ck), "--n", 600 if full else 60, "--maxply", 24, "--out", hp, "--seed", core.seed() + 3])
    for l in open(hp):
        f = l.rstrip("\n").split("|")
        plan.append(plan_line(f[0], "depth %d" % rnd.choice([3, 4, 4, 5] if full else [3, 4, 4]), tt=rnd.choice(["fresh", "warm"]), tag="hist", moves=f[1].split()))
    viols, cnt, info, sh = run_plan(ck, exe, plan, "r")
    for k in ("go", "best", "info", "stop_runs", "poison_runs", "early_stop_runs"):
        if cnt.get(k, 0) == 0:
            raise InfraError("vacuous C05 run: counter %s is 0" % k)
    others = {}
    take(ck, "C05", viols, others)
    take_crashes(ck, "C05", info, others)
    ck.cov["evaluations"] = cnt["go"]
    ck.cov["distinct_nontrivial"] = cnt["stop_runs"] + cnt["poison_runs"]
    ck.cov["rule"] = ("real Search::go() runs (in-process, stdout captured) on positions from a pool (roots, engine games, sparse material); every run's bestmove and every "
                      "pv are checked by the monitor against Legal() of the rules specification. Run kinds: depth 1..3 with fresh / warm / poisoned table (entries with depth "
                      "100, all flags, scores incl. mate range and infinities, moves: none, arbitrary, castling codes, junk bits, legal-at-root, inserted under the keys of the "
                      "root and of positions one and two plies below), stop delivered at every label of the searcher and at each of the first %d node visits, expired and "
                      "tiny budgets, searchmoves. distinct_nontrivial = runs with a stop placement + runs with a poisoned table. Design level: SearchSession.tla exhaustive.") % K
    ck.cov["monitor_counters"] = cnt
    ck.sample(first_run(sh))
    ck.assumptions += ["a stop injected by the hook sink at a hook point is the reader's write landing at that point of the interleaving (sequential consistency of the flag)",
                       "Chess.tla as the definition of legality"]
    note_others(ck, others)
    return ck.finish()


# ------------------------------------------------------------------ C06
def schedules(ck, exe, plan, variant_exe=None):
    pf = os.path.join(ck.work, "sched.plan")
    open(pf, "w").write("\n".join(plan) + "\n")
    core.run_vh(variant_exe or exe, ["schedules", "--plan", pf, "--out", ck.work, "--stem", "sched", "--wait-ms", 6000], timeout=3000)
    sh = [os.path.join(ck.work, "sched.0.ndjson")]
    viols, cnt, st = core.validate_shards(sh, module="SearchTrace.tla", cfg="SearchTrace.cfg", timeout=1800)
    ck.add_states(st["generated"], st["distinct"])
    ck.cov["traces_validated_against_impl"] += len(plan)
    return viols, cnt, sh


def c06(tier):
    ck = Check("C06", tier, "model_checking")
    exe = build.build("plain")
    full = tier == "thorough"
    rnd = random.Random(core.seed())
    ck.cov["design"] = design(ck)
    ck.cov["design_as_written"] = design_as_written(ck, ["lost_stop", "poll_overwrites", "running_guard"])
    pool = make_pool(ck, exe, 200 if full else 30, 300 if full else 100)
    busy = [p for p in pool if p["n"] >= 15 and p["src"] != "sparse"] or pool
    others = {}
    # (1) in-process replay of every stop placement of the model: every label, the first K node visits, later visits
    plan = []
    K = 400 if full else 60
    for lab in LABELS:
        for rep in range(20 if full else 4):
            p = rnd.choice(busy)
            n = 1 if lab in LABELS[:4] + ["before_best"] else rnd.randint(1, 4)
            plan.append(plan_line(p["fen"], "infinite" if lab != "before_best" else "depth 3", tt="fresh", stop_id=lab, stop_n=n, tag="stop"))
    for k in list(range(1, K + 1)) + [rnd.randint(K, 200000) for _ in range(100 if full else 20)]:
        p = rnd.choice(busy)
        plan.append(plan_line(p["fen"], rnd.choice(["infinite", "infinite", "depth 30", "wtime 600000 btime 600000"]), tt="fresh",
                              stop_id=rnd.choice(["node", "node", "qnode"]), stop_n=k, tag="stop"))
    # capture-saturated positions: a stop that lands inside a huge quiescence tree must still be honoured at once
    tact = [l.strip() for l in open(os.path.join(DATA, "roots_tactical.fen")) if l.strip() and not l.startswith("#")]
    for fen in tact:
        for k in ([3, 40, 700, 5000] if full else [5, 300]):
            plan.append(plan_line(fen, "infinite", tt="fresh", stop_id=rnd.choice(["qnode", "node"]), stop_n=k, tag="stop"))
        plan.append(plan_line(fen, "infinite", tt="fresh", stop_id="qnode", stop_n=rnd.randint(1000, 4000), tag="stop"))
    viols, cnt, info, sh = run_plan(ck, exe, plan, "a")
    take(ck, "C06", viols, others)
    take_crashes(ck, "C06", info, others)
    # (2) the real two threads: searcher parked at a label by the scheduler, isready and stop delivered by the real reader
    splan = []
    labels_b = ["thread_start", "go_entry", "after_init", "after_reset", "iter_start", "node", "qnode", "iter_end", "before_best", "limits"]
    for lab in labels_b:
        for rep in range(6 if full else 2):
            p = rnd.choice(busy)
            n = 1 if lab in ("thread_start", "go_entry", "after_init", "after_reset", "before_best") else (rnd.choice([1, 2]) if lab == "limits" else rnd.choice([1, 2, 5, 50, 400]))
            go = "depth 3" if lab == "before_best" else "infinite"
            splan.append("%s|%s|%s|%d|%s|threads" % (p["fen"], go, lab, n, rnd.choice(["isready,stop", "stop", "isready,stop,isready"])))
    for rep in range(20 if full else 4):      # isready only, the search then ends by its depth limit
        p = rnd.choice(busy)
        splan.append("%s|depth 3|%s|%d|isready|threads" % (p["fen"], rnd.choice(["node", "iter_start"]), rnd.choice([1, 3, 20])))
    # a stale search thread: the first search has answered, its thread is held right behind its bestmove line, the next go is accepted,
    # the first thread then runs to its end, and only then the stop for the second search arrives (ThreadExit in SearchSession.tla)
    for rep in range(24 if full else 6):
        p = rnd.choice(busy)
        splan.append("%s|infinite|stale_thread|%d|%s|threads" % (p["fen"], rnd.choice([30, 100, 250]), rnd.choice(["depth 1", "depth 2", "movetime 10", "nodes 300"])))
    # every fifth schedule follows an earlier `go` of the same session on a finished game (mate / stalemate on the board)
    splan = [l + "+terminal" if i % 5 == 4 else l for i, l in enumerate(splan)]
    v2, c2, sh2 = schedules(ck, exe, splan)
    take(ck, "C06", v2, others)
    if c2.get("thread_runs", 0) == 0 or c2.get("isready_runs", 0) == 0 or cnt.get("stop_runs", 0) == 0:
        raise InfraError("vacuous C06 run")
    # (3) whole-process sessions of the engine's own executable: a go that arrives while a search is running (the running search is
    #     ended and answered first), isready in between, then stop: the reader must stay responsive and both searches be answered
    dg = []
    for rep in range(6 if full else 3):
        res = process_session(build.engine_exe("plain"), ["position startpos", "go infinite", "@sleep %d" % rnd.choice([20, 80, 200]), "go infinite", "isready", "@wait readyok",
                                                           "@sleep 50", "stop", "@wait bestmove", "@wait bestmove", "quit"], {}, limit_s=10)
        nb = len([l for l in res["out"] if l.startswith("bestmove")])
        ok = res["exit"] == 0 and "readyok" in res["out"] and nb == 2
        dg.append(dict(exit=res["exit"], bestmoves=nb, readyok="readyok" in res["out"]))
        if not ok:
            kind = "isready_not_answered_during_search" if "readyok" not in res["out"] else "stop_lost"
            ck.discrepancy({"kind": kind, "stop_id": "go_while_searching"}, dict(prop="C06", kind=kind, detail=dict(session="go infinite / go infinite / isready / stop", exit=res["exit"], bestmoves=nb, out=res["out"][-6:])))
    ck.cov["go_while_searching_sessions"] = dg
    tsan_note = None
    if full:
        # observer of the replay: the same schedules under ThreadSanitizer; a report on the stop flag is a discrepancy of kind race
        texe = build.build("tsan")
        pf = os.path.join(ck.work, "sched_tsan.plan")
        open(pf, "w").write("\n".join(splan[:12]) + "\n")
        r = core.run_vh(texe, ["schedules", "--plan", pf, "--out", ck.work, "--stem", "tsan", "--wait-ms", 20000], timeout=3000, check=False,
                        env={"TSAN_OPTIONS": "halt_on_error=0 report_signal_unsafe=0"})
        reports = r.stderr.count("WARNING: ThreadSanitizer: data race")
        onflag = "stop_search" in r.stderr or "Search::stop" in r.stderr
        tsan_note = dict(reports=reports, mentions_stop_flag=onflag)
        if reports and onflag:
            ck.discrepancy({"kind": "data_race_on_stop_flag", "observer": "tsan"}, dict(prop="C06", kind="data_race_on_stop_flag", detail=r.stderr[:3000]))
    ck.cov["evaluations"] = cnt["go"] + c2["go"]
    ck.cov["distinct_nontrivial"] = cnt["stop_runs"] + c2["thread_runs"]
    ck.cov["rule"] = ("schedules = placements of the reader's stop (and isready) relative to the searcher's progress. (1) every label of the searcher (before the thread runs, "
                      "go entry, after init, after the flag reset, iteration start/end, before printing) and each of the first %d node visits plus random later visits, replayed "
                      "in-process with the stop injected at the hook point; (2) the real Uci::loop reader thread and the real detached search thread with the searcher parked at "
                      "a label by the scheduler sink while isready / stop are delivered through std::cin. Verdict per schedule: exactly one bestmove, no iteration started after "
                      "the stop, at most %d node visits after it (a lost stop runs on until the bound and is then reported), readyok printed while the searcher is parked, and the "
                      "flag shared by the two threads is an atomic object. Design level: all interleavings and liveness (stop ~> bestmove) in SearchSession.tla") % (K, 10000)
    ck.cov["monitor_counters_inprocess"] = cnt
    ck.cov["monitor_counters_threads"] = c2
    if tsan_note:
        ck.cov["tsan_observer"] = tsan_note
    ck.sample(first_run(sh)); ck.sample(first_run(sh2))
    ck.assumptions += ["promptness is a step bound (node visits after the stop), not wall-clock time",
                       "data-race freedom is decided from the type of the shared flag (atomic or not) plus the fact that two threads access it; ThreadSanitizer is an additional observer in the thorough tier"]
    note_others(ck, others)
    return ck.finish()


# ------------------------------------------------------------------ C08
def epevade_family(rnd, n):
    """positions around 'double push gives check, en passant is the only evasion' (both colours, both push sides, all files that fit)"""
    def fen_of(pieces, stm, ep):
        rows = []
        for r in range(7, -1, -1):
            row, gap = "", 0
            for f in range(8):
                c = pieces.get((f, r))
                if c:
                    row += (str(gap) if gap else "") + c
                    gap = 0
                else:
                    gap += 1
            rows.append(row + (str(gap) if gap else ""))
        return "/".join(rows) + " %s - %s 0 30" % (stm, ep)

    def mirror(pieces):
        return {(f, 7 - r): (c.lower() if c.isupper() else c.upper()) for (f, r), c in pieces.items()}
    out = []
    for kf in range(1, 7):
        for side in (-1, 1):
            pf = kf + side                      # file of the pawn that will be pushed
            for rf in range(8):
                if abs(rf - kf) < 2:
                    continue
                for wk in ((0, 0), (7, 0), (0, 7), (7, 7)):
                    # white: pawn on its second rank, protector pawn on the third below the king, knight two ranks above the king, rook on the
                    # rank above the king; black: king on its fifth... (from white's side: rank index 4), pawn right below it
                    pieces = {(kf, 4): "k", (kf, 3): "p", (pf, 1): "P", (kf, 2): "P", (kf, 6): "N", (rf, 5): "R", wk: "K"}
                    if len(pieces) != 7 or abs(wk[0] - rf) == 0 and wk[1] == 5:
                        continue
                    if wk == (rf, 7) or (wk[1] == 7 and abs(wk[0] - kf) <= 1):     # king next to / behind the knight's square region: keep clear
                        continue
                    before = fen_of(pieces, "w", "-")
                    after_p = dict(pieces)
                    del after_p[(pf, 1)]
                    after_p[(pf, 3)] = "P"
                    after = fen_of(after_p, "b", "abcdefgh"[pf] + "3")
                    out += [before, after]
                    mb, ma = mirror(pieces), mirror(after_p)
                    out += [fen_of(mb, "b", "-"), fen_of(ma, "w", "abcdefgh"[pf] + "6")]
    rnd.shuffle(out)
    return out[:n]


def c08(tier):
    ck = Check("C08", tier, "model_checking")
    exe = build.build("plain")
    full = tier == "thorough"
    rnd = random.Random(core.seed())
    ck.cov["design"] = design(ck)
    ck.cov["design_as_written"] = design_as_written(ck, ["pruned"])
    # the score conventions: ScoreAlgebra.tla (ASSUMEs = design checks) prints the table of is_mate / announcement / win_in / lost_in,
    # replayed into the engine's own functions
    res = core.tlc_ok(core.tlc("ScoreAlgebra.tla", cfg="ScoreAlgebra.cfg", workers=1, timeout=600, metadir=os.path.join(ck.work, "md_sa")), "ScoreAlgebra")
    rows = [x for x in res["strings"] if x.startswith("SCO ") or x.startswith("WIN ")]
    if len(rows) < 200:
        raise InfraError("ScoreAlgebra printed %d rows" % len(rows))
    tab = os.path.join(ck.work, "scores.rows")
    open(tab, "w").write("\n".join(rows) + "\n")
    sres = os.path.join(ck.work, "scores.res")
    core.run_vh(exe, ["score-table", "--in", tab, "--out", sres])
    srecs = [json.loads(l) for l in open(sres)]
    if [r for r in srecs if r.get("summary")][0]["rows"] != len(rows):
        raise InfraError("score table replay incomplete")
    for r in srecs:
        if not r.get("summary"):
            ck.discrepancy({"kind": "score_algebra"}, r)
    ck.cov["score_table_rows"] = len(rows)
    pool = make_pool(ck, exe, 3000 if full else 300, 20000 if full else 3000, attack=60000 if full else 3000)
    mate1 = [p for p in pool if p["mate1"]]
    plan = []
    # mates in one: every depth, fresh and warm tables, repeated root
    for p in mate1[: (2000 if full else 150)]:
        for d in ([1, 2, 3, 4] if full else [1, 3]):
            plan.append(plan_line(p["fen"], "depth %d" % d, tt=rnd.choice(["fresh", "warm"]), tag="m1"))
    # session histories in which an earlier search of the SAME position was restricted by searchmoves to the moves that do not mate: what
    # that search leaves in the table is the value of a subset of the moves, and the next unrestricted go (no position command in between,
    # same table epoch) must still play the mate
    for p in mate1[: (600 if full else 80)]:
        d0 = rnd.choice([1, 2, 3, 4])
        plan.append(plan_line(p["fen"], "depth %d" % d0, sm=["@nonmating"], tt=rnd.choice(["fresh", "warm"]), tag="m1sm"))
        plan.append(plan_line(p["fen"], "depth %d" % rnd.choice([1, 1, 2, 3]), tt="again", tag="m1"))
    # ... or was stopped early (go infinite, stop after a few node visits): whatever the abandoned search wrote into the table, the next go
    # on the same position must still play the mate
    for p in mate1[: (600 if full else 80)]:
        plan.append(plan_line(p["fen"], "infinite", tt=rnd.choice(["fresh", "warm"]), stop_id="node", stop_n=rnd.choice([2, 3, 4, 5, 6, 8, 12, 20, 40]), tag="m1st"))
        plan.append(plan_line(p["fen"], "depth %d" % rnd.choice([1, 1, 2, 3]), tt="again", tag="m1"))
    # the same roots at the fifty-move boundary (half-move clock 99 and 100: the mating move completes or exceeds the fifty moves;
    # checkmate ends the game before any draw can be claimed)
    def with_clock(fen, hmc):
        f = fen.split()
        f[4] = str(hmc)
        f[5] = str(max(int(f[5]), hmc // 2 + 2))
        return " ".join(f)
    for p in [q for q in mate1 if q["fen"].split()[3] == "-"][: (400 if full else 60)]:      # (an en-passant square means a pawn has just moved: clock 0)
        for hmc in (99, 100):
            plan.append(plan_line(with_clock(p["fen"], hmc), "depth %d" % rnd.choice([1, 2, 3]), tt=rnd.choice(["fresh", "warm"]), tag="m1clk"))
    # announcements: shallow searches over many sparse and game positions (where the all-moves-pruned value shows), real session histories:
    # the same root repeated, then its table reused
    n = 40000 if full else 9000
    rnd.shuffle(pool)
    for i in range(n):
        p = pool[i % len(pool)]          # every pool position before any repeats
        d = rnd.choice([1, 2, 2, 3, 3] + ([4] if full else []))
        plan.append(plan_line(p["fen"], "depth %d" % d, tt="fresh" if i % 25 == 0 else "warm", tag="ann"))
        if i % 10 == 0:
            plan.append(plan_line(p["fen"], "depth %d" % min(d + 1, 4), tt="warm", tag="ann"))
    viols, cnt, info, sh = run_plan(ck, exe, plan, "m", shards=48 if full else 16, filt="mate", keep_every=400 if full else 150, mate_maxn=2, timeout=6000, procs=8 if full else 1)
    if cnt.get("mate_claims", 0) == 0 or cnt.get("mate1_roots", 0) == 0:
        raise InfraError("vacuous C08 run: %s" % cnt)
    # positions NEAR a forced mate (generator: nearmate-pool; the oracle decides every announcement as above)
    #  refuted:  a capture giving check inside quiescence, one evasion runs into a mate, a quiet evasion holds (roots 0..2 plies earlier)
    #  zugzwang: sparse endgames where the side to move would mate if it could pass but cannot mate as it is (a committed corpus,
    #            data/roots_zugzwang.fen, plus freshly generated ones in the thorough tier), searched deep enough for null-move pruning
    from concurrent.futures import ThreadPoolExecutor
    gens = 8
    def gen(i):
        outp = os.path.join(ck.work, "nearmate%d.txt" % i)
        core.run_vh(exe, ["nearmate-pool", "--out", outp, "--refuted", (250 if full else 50), "--zugzwang", (12 if full else 0), "--max-tries", 600000,
                          "--minimal", ((1600 if full else 300) if i == 0 else 0), "--dpush", ((1500 if full else 200) if i == 1 else 0),
                          "--seed", core.seed() * 100 + i], timeout=3000)
        return [l.rstrip("\n").split("|") for l in open(outp)]
    with ThreadPoolExecutor(max_workers=gens) as ex:
        near = [r for part in ex.map(gen, range(gens)) for r in part]
    plan2 = []
    for f in near:
        if f[5] == "nm-minimal":     # mates in one with the least material that can mate (the draw-by-material test must not pre-empt them)
            for d in ([1, 2, 3] if full else [1, 2]):
                plan2.append(plan_line(f[0], "depth %d" % d, tt="fresh" if d == 1 else "warm", tag="m1"))
        elif f[5].startswith("nm-dpush"):   # in check by a slider with a double pawn push among the few evasions, and the move before
            for d in [1, 2]:
                plan2.append(plan_line(f[0], "depth %d" % d, tt="fresh" if d == 1 else "warm", tag="near"))
        elif f[5].startswith("nm-refuted"):
            for d in ([1, 2, 3] if full else [1, 2]):
                plan2.append(plan_line(f[0], "depth %d" % d, tt="fresh" if d == 1 else "warm", tag="near"))
        else:
            plan2.append(plan_line(f[0], "depth 11", tt="fresh", tag="zz"))
    # constructed: a double pawn push gives check and the en-passant capture of the checking pawn is the ONLY evasion (king boxed in by a
    # rook on the rank behind it, a knight, and the pawn that protects the pushed pawn); searched one ply before the push and right after it
    ep_roots = epevade_family(rnd, 200 if full else 40)
    for fen in ep_roots:
        for d in ([1, 2, 3] if full else [1, 2]):
            plan2.append(plan_line(fen, "depth %d" % d, tt="fresh" if d == 1 else "warm", tag="near"))
    for fen in [l.strip() for l in open(os.path.join(DATA, "roots_nearmate_found.fen")) if l.strip() and not l.startswith("#")]:
        for d in [2, 3, 4]:
            plan2.append(plan_line(fen, "depth %d" % d, tt="fresh", tag="near"))
    zz = [l.strip() for l in open(os.path.join(DATA, "roots_zugzwang.fen")) if l.strip() and not l.startswith("#")]
    for fen in zz:
        plan2.append(plan_line(fen, "depth 11", tt="fresh", tag="zz"))
    v2, c2, i2, sh2 = run_plan(ck, exe, plan2, "n", shards=48 if full else 12, filt="mate", keep_every=400, mate_maxn=2, timeout=6000, procs=12)
    viols += v2
    for k, v in c2.items():
        cnt[k] = cnt.get(k, 0) + v
    info["runs"] += i2["runs"]
    info["logged"] += i2["logged"]
    info["crashes"] += i2["crashes"]
    ck.cov["near_mate_roots"] = dict(minimal_mates=sum(1 for f in near if f[5] == "nm-minimal"), refuted=sum(1 for f in near if f[5].startswith("nm-refuted")), zugzwang_generated=sum(1 for f in near if f[5].startswith("nm-zz")),
                                     zugzwang_corpus=len(zz), runs=i2["runs"])
    others = {}
    # the harness solver runs on the ENGINE's move generator; MateOracle.tla runs on the specification's.  Where both decide a claim
    # they must agree; if they do not, the specification decides, the solver's verdicts (claims beyond the TLC bound) are dropped
    # as undecided for this run, and the disagreement is recorded (it points at the generator, C01's subject)
    dis = [v for v in viols if v.get("kind") == "solver_disagrees_with_specification"]
    if dis:
        viols = [v for v in viols if v.get("kind") != "solver_disagrees_with_specification"
                 and "harness solver" not in str((v.get("detail") or {}).get("decided_by", ""))]
        ck.notes.append("the harness mate solver disagreed with MateOracle.tla on %d claim(s), e.g. %s; its verdicts were dropped for this run, the specification's stand"
                        % (len(dis), json.dumps(dis[0].get("detail"))[:200]))
        ck.cov["solver_disagreements"] = len(dis)
    take(ck, "C08", viols, others)
    take_crashes(ck, "C08", info, others, covered=False)
    ck.cov["evaluations"] = info["runs"]
    ck.cov["distinct_nontrivial"] = cnt["mate_claims"] + cnt["mate1_roots"]
    ck.cov["rule"] = ("%d real searches (depth 1..%d, fresh and warm tables as real sessions leave them) over a pool of game, root and sparse-material positions; every run whose "
                      "output contains a mate score, and every run on a root where the engine's generator sees a mate in one, is logged and decided by the monitor with the mate "
                      "oracle of MateOracle.tla (exhaustive forced-mate definition over Legal/Apply of the rules spec, first with the claimed distance in moves = ceil(plies/2) and the "
                      "engine's pv move as a hint, then exhaustively up to %d moves); claims beyond that bound are decided by the harness's exhaustive solver (same definition, over the "
                      "engine's move generator, 4M-node budget; cross-checked against the specification's verdict on every claim within the bound: see solver_agrees) or "
                      "counted as undecided (%d this run), never as violations. "
                      "distinct_nontrivial = mate announcements decided + roots with a mate in one") % (info["runs"], 4 if full else 3, 2, cnt.get("mate_undecided", 0))
    ck.cov["monitor_counters"] = cnt
    ck.cov["runs_logged_for_the_oracle"] = info["logged"]
    ck.sample(first_run(sh))
    ck.assumptions += ["runs without any mate score in their output and without a mate in one at the root (by the engine's own generator, itself checked by C01) carry no C08 obligation",
                       "ply-counted mate distances (y larger than the true move count) satisfy 'within y moves' and are not flagged"]
    note_others(ck, others)
    return ck.finish()


# ------------------------------------------------------------------ C09
def c09(tier):
    ck = Check("C09", tier, "model_checking")
    exe = build.build("plain")
    full = tier == "thorough"
    rnd = random.Random(core.seed())
    ck.cov["design"] = design(ck)
    ck.cov["design_as_written"] = design_as_written(ck, ["no_clamp"])
    pool = make_pool(ck, exe, 300 if full else 40, 1000 if full else 200)
    quiet = [p for p in pool if p["n"] >= 3]
    plan = []
    for i in range(1500 if full else 90):
        p = rnd.choice(pool)
        plan.append(plan_line(p["fen"], "depth %d" % rnd.choice([1, 2, 3, 4] + ([5, 6] if full else [])), tt=rnd.choice(["fresh", "warm"]), tag="depth"))
    # a depth limit given together with other limits (clock, movetime, nodes) still caps the iterations
    for i in range(200 if full else 24):
        p = rnd.choice(pool)
        d = rnd.randint(1, 3)
        extra = rnd.choice(["wtime 60000 btime 60000", "wtime 300000 btime 300000 winc 2000 binc 2000", "movetime 3000", "nodes 5000000",
                            "wtime 90000 btime 90000 movestogo 20", "movetime 3000 wtime 60000 btime 60000"])
        plan.append(plan_line(p["fen"], ("depth %d " % d) + extra if rnd.random() < 0.5 else extra + (" depth %d" % d), tt=rnd.choice(["fresh", "warm"]), tag="depth+"))
    # depth values around and beyond the internal maximum on trees that stay tiny
    tiny = ["8/8/4k3/8/8/8/8/4K3 w - - 0 1", "8/8/4k3/8/8/8/8/4K3 b - - 0 1", "7k/5K2/8/6P1/8/8/8/8 b - - 0 1", "k7/P7/1K6/8/8/8/8/8 b - - 0 1",
            "7k/8/6K1/8/8/8/8/8 w - - 0 1", "6k1/5ppp/8/8/8/8/8/1RK5 w - - 0 1", "k7/8/1K6/8/8/8/8/7R w - - 0 1", "8/8/8/8/8/5k2/7q/7K w - - 0 1",
            "8/8/8/3k4/8/8/8/3K4 w - - 0 1", "8/8/3k4/8/8/3KN3/8/8 w - - 0 1"]
    for fen in tiny:
        for d in [39, 40, 41, 42, 60, 100, 200] + ([45, 80, 127, 1000] if full else []):
            plan.append(plan_line(fen, "depth %d" % d, tt=rnd.choice(["fresh", "warm"]), tag="deep"))
    # searchmoves: singletons, subsets, all-but-best after a priming search (the table then holds an exact root entry with a move outside the subset)
    for i in range(600 if full else 50):
        p = rnd.choice(quiet)
        d = rnd.randint(1, 3)
        plan.append(plan_line(p["fen"], "depth %d" % d, tt="fresh", tag="prime"))
        plan.append(plan_line(p["fen"], "depth %d" % d, sm=["@allbutlast"], tt="warm", tag="sm"))
        plan.append(plan_line(p["fen"], "depth %d" % rnd.randint(1, 3), sm=rnd.sample(p["moves"], rnd.randint(1, min(4, len(p["moves"])))), tt="warm", tag="sm"))
        if i % 3 == 0:
            plan.append(plan_line(p["fen"], "depth 2", sm=[rnd.choice(p["moves"])], tt="poison", tag="sm"))
    # searchmoves when NO iteration completes (the answer is then the fallback move): a stop before the search proper starts, and
    # budgets that are exhausted at the first poll of a large first iteration (capture-saturated roots)
    tact = [l.strip() for l in open(os.path.join(DATA, "roots_tactical.fen")) if l.strip() and not l.startswith("#")]
    for i in range(120 if full else 24):
        p = rnd.choice(quiet)
        sm = rnd.sample(p["moves"][1:] or p["moves"], min(len(p["moves"][1:] or p["moves"]), rnd.randint(1, 3)))     # never the generator's first move
        plan.append(plan_line(p["fen"], rnd.choice(["depth 3", "infinite", "movetime 2000"]), sm=sm, tt=rnd.choice(["fresh", "warm"]),
                              stop_id=rnd.choice(["before_thread_start", "go_entry", "after_init", "after_reset", "node"]), stop_n=1, tag="sm"))
    tf = os.path.join(ck.work, "tactpool.txt")
    core.run_vh(exe, ["pool", "--roots", os.path.join(DATA, "roots_tactical.fen"), "--games", 0, "--sparse", 0, "--out", tf, "--seed", 1])
    pooltact = []
    for l in open(tf):
        f = l.rstrip("\n").split("|")
        pooltact.append(dict(fen=f[0], moves=f[1].split()))
    for p in pooltact:
        for go in ["nodes 1", "wtime 1 btime 1", "movetime 1"]:
            if len(p["moves"]) >= 4:
                plan.append(plan_line(p["fen"], go, sm=p["moves"][-2:], tt="fresh", tag="sm"))
    # finite time / clock limits must end on their own
    for go in ["movetime 20", "movetime 1", "wtime 300 btime 300", "wtime 50 btime 50 winc 10 binc 10", "wtime 2000 btime 2000 movestogo 40", "nodes 2000", "nodes 1",
               "wtime 1 btime 1", "depth 2 movetime 1000",
               # boundary clocks a GUI really sends: nothing left, already overstepped (negative), for one side or both
               "wtime 0 btime 0", "wtime -50 btime -50", "wtime -1 btime 300", "wtime 300 btime -1", "wtime -2000 btime -2000 movestogo 5",
               "wtime -30000 btime -30000 winc 100 binc 100", "wtime 0 btime 0 winc 0 binc 0 movestogo 1"]:
        for rep in range(12 if full else 3):
            p = rnd.choice(pool)
            plan.append(plan_line(p["fen"], go, tt="warm", tag="time"))
    viols, cnt, info, sh = run_plan(ck, exe, plan, "d")
    for k in ("depth_runs", "searchmoves_runs", "time_runs", "info"):
        if cnt.get(k, 0) == 0:
            raise InfraError("vacuous C09 run: %s" % k)
    others = {}
    take(ck, "C09", viols, others)
    take_crashes(ck, "C09", info, others)
    ck.cov["evaluations"] = cnt["go"]
    ck.cov["distinct_nontrivial"] = cnt["searchmoves_runs"] + len(tiny) * 7 + cnt["time_runs"]
    ck.cov["rule"] = ("real Search::go() runs: `go depth d` for d in 1..%d on pool positions and d in {39,40,41,42,60,100,200,...} on positions whose trees stay tiny (bare kings, dead "
                      "draws, single legal move, mate in one); the monitor checks info depths 1,2,... without gaps, none above d; searchmoves singletons, random subsets and "
                      "all-but-the-previous-best after a priming search (exact root entry in the table with a move outside the subset), bestmove must be in the subset; movetime / "
                      "clock / node limits must end without the harness forcing them (visit cap 3M). distinct_nontrivial = searchmoves runs + deep-limit runs + time-limit runs") % (6 if full else 4)
    ck.cov["monitor_counters"] = cnt
    ck.sample(first_run(sh))
    ck.assumptions += ["termination is observed under a visit cap of 3,000,000 node visits per run"]
    note_others(ck, others)
    return ck.finish()


def process_session(engine, script, env_extra, limit_s=20):
    """drive the engine's own executable through pipes: lines are sent as they are; `@sleep ms` waits; `@wait prefix` waits for an
    output line with that prefix; after the last line stdin is closed.  Returns exit status (negative = signal), sanitizer report, stderr."""
    import threading
    env = dict(os.environ)
    env.update(env_extra or {})
    t0 = time.time()
    p = subprocess.Popen(engine if isinstance(engine, list) else [engine], stdin=subprocess.PIPE, stdout=subprocess.PIPE, stderr=subprocess.PIPE, text=True, env=env, bufsize=1)
    lines, errs = [], []
    consumed = {}
    cond = threading.Condition()
    def rd():
        for l in p.stdout:
            with cond:
                lines.append(l.rstrip("\n"))
                cond.notify_all()
    def rd_err():
        for l in p.stderr:
            errs.append(l)
    th = threading.Thread(target=rd, daemon=True)
    th.start()
    te = threading.Thread(target=rd_err, daemon=True)
    te.start()
    try:
        for c in script:
            if c.startswith("@sleep"):
                time.sleep(int(c.split()[1]) / 1000.0)
            elif c.startswith("@wait"):
                # the k-th wait for a prefix is satisfied by the k-th output line with that prefix
                pre = c.split(None, 1)[1]
                consumed[pre] = consumed.get(pre, 0) + 1
                with cond:
                    cond.wait_for(lambda: len([l for l in lines if l.startswith(pre)]) >= consumed[pre], timeout=limit_s)
            else:
                p.stdin.write(c + "\n")
                p.stdin.flush()
        p.stdin.close()
    except (BrokenPipeError, OSError):
        pass
    try:
        rc = p.wait(timeout=limit_s)
    except subprocess.TimeoutExpired:
        p.kill()
        p.wait()
        rc = "timeout"
    th.join(timeout=2)
    te.join(timeout=2)
    err = "".join(errs)
    first = [l for l in err.splitlines() if "runtime error:" in l or "ERROR: AddressSanitizer" in l or "ERROR: ThreadSanitizer" in l]
    return dict(exit=rc, report=first[0][:300] if first else "", stderr=err, seconds=round(time.time() - t0, 2), out=lines)


# ------------------------------------------------------------------ C10
BIG = [l.strip() for l in open(os.path.join(DATA, "roots_big.fen")) if l.strip() and not l.startswith("#")]
TINY = ["8/8/4k3/8/8/8/8/4K3 w - - 0 1", "7k/5K2/8/6P1/8/8/8/8 b - - 0 1", "k7/8/1K6/8/8/8/8/7R w - - 0 1", "8/8/8/3k4/8/8/8/3K4 w - - 0 1"]


def c10(tier):
    ck = Check("C10", tier, "exploration")
    plain = build.build("plain")
    exe = build.build("asan")
    full = tier == "thorough"
    rnd = random.Random(core.seed())
    # D: the index-bound invariants of the design; the search thread is gone when the command loop is left (ExitSafe)
    ck.cov["design"] = design(ck, ("SearchSession_quit.cfg",))
    ck.cov["design_as_written"] = design_as_written(ck, ["no_clamp", "detached"])
    asan_env = {"ASAN_OPTIONS": "detect_leaks=0:abort_on_error=0:exitcode=66", "UBSAN_OPTIONS": "print_stacktrace=1:halt_on_error=1:exitcode=67"}
    sessions = []   # (name, script lines, wellformedness trace or None)

    # 1. games longer than the history table: position ... moves with 801+ plies, then searches, then more moves
    wf_shards = []
    for gi, plies in enumerate([1000, 1700, 805] + ([2500, 3200, 801, 900] if full else [])):
        gf = os.path.join(ck.work, "long%d.txt" % gi)
        core.run_vh(plain, ["long-game", "--plies", plies, "--out", gf, "--seed", core.seed() * 31 + gi])
        ms = open(gf).read().split()
        if len(ms) < 801:
            raise InfraError("long-game generator produced only %d plies" % len(ms))
        # well-formedness witness for the monitor: every move legal, the game never over
        tr = os.path.join(ck.work, "wf.%d.ndjson" % gi)
        with open(tr, "w") as f:
            f.write(json.dumps({"e": "reset", "fen": "rnbqkbnr/pppppppp/8/8/8/8/PPPPPPPP/RNBQKBNR w KQkq - 0 1"}) + "\n")
            for m in ms:
                f.write(json.dumps({"e": "do", "m": m, "wf": True}) + "\n" + json.dumps({"e": "commit"}) + "\n")
        wf_shards.append(tr)
        k = len(ms) - 40
        script = ["ucinewgame", "position startpos moves " + " ".join(ms[:k]), "go depth 2", "position startpos moves " + " ".join(ms), "go depth 3", "isready"]
        script += ["position startpos moves " + " ".join(ms[:799]), "go depth 1", "position startpos moves " + " ".join(ms[:800]), "go depth 1",
                   "position startpos moves " + " ".join(ms[:801]), "go depth 1"]
        sessions.append(("long_game_%d_plies" % len(ms), script))
    # 2. depth limits beyond the per-depth arrays, on tiny trees and through the real front end
    script = ["ucinewgame"]
    for fen in TINY:
        for d in [40, 41, 60, 200] + ([42, 100, 1000000] if full else []):
            script += ["position fen " + fen, "go depth %d" % d]
    sessions.append(("depth_limits_beyond_max", script))
    # 3. move-list and piece-list capacities: 218 legal moves, ten pieces of a kind, many queens
    script = ["ucinewgame"]
    for fen in BIG:
        script += ["position fen " + fen, "go depth 2", "perft 2", "go depth 3 searchmoves"]
    sessions.append(("move_and_piece_list_capacity", script))
    # 3b. many legal moves AND several iterations: everything indexed by the number of a move within its node (late-move tables)
    many = [l.strip() for l in open(os.path.join(DATA, "roots_manymoves.fen")) if l.strip() and not l.startswith("#")]
    script = ["ucinewgame"]
    for fen in many:
        script += ["position fen " + fen, "go depth %d" % (6 if full else 5)]
    sessions.append(("many_moves_deeper", script))
    # 4. searchmoves with every legal move, repeated ucinewgame, ordinary play by the engine against itself
    pool = make_pool(ck, plain, 30, 60)
    script = []
    for i in range(40 if full else 12):
        p = rnd.choice(pool)
        script += ["ucinewgame", "position fen " + p["fen"], "go depth %d searchmoves %s" % (rnd.randint(1, 3), " ".join(p["moves"])),
                   "go movetime %d" % rnd.choice([1, 5, 30]), "go wtime 50 btime 50 winc 1 binc 1", "go nodes %d" % rnd.choice([1, 500, 20000]),
                   "go wtime 300 btime 300 movestogo %d" % rnd.choice([50, 51, 52, 80, 200, 1000])]
    sessions.append(("searchmoves_all_and_newgames", script))
    # 5. deep forcing lines: long check sequences and capture chains at a high iteration count (search stack)
    script = ["ucinewgame"]
    for fen in ["6k1/8/8/8/8/8/q7/4K2R w K - 0 1", "k7/8/8/8/8/8/1Q6/K7 w - - 0 1", "3rk3/3r4/3r4/3r4/3R4/3R4/3R4/3RK3 w - - 0 1",
                "r1b1k2r/ppppqppp/2n2n2/2b1p3/2B1P3/2N2N2/PPPPQPPP/R1B1K2R w KQkq - 0 1"]:
        script += ["position fen " + fen, "go depth %d" % (9 if full else 6)]
    sessions.append(("forcing_lines", script))

    others = {}
    results = []
    for name, script in sessions:
        sf = os.path.join(ck.work, name + ".uci")
        open(sf, "w").write("\n".join(script) + "\n")
        r = core.run_vh(exe, ["uci-session", "--script", sf, "--wait-ms", 240000], timeout=3000, check=False, env=asan_env)
        err = "\n".join(l for l in r.stderr.splitlines() if l.strip())
        report = None
        if "runtime error:" in err or "ERROR: AddressSanitizer" in err or r.returncode != 0:
            first = [l for l in err.splitlines() if "runtime error:" in l or "ERROR: AddressSanitizer" in l or "SESSION HUNG" in l]
            what = first[0] if first else "exit status %d" % r.returncode
            where = what.split(" runtime error:")[0].strip() if "runtime error:" in what else ""
            kind = "history_overflow" if "uint64_t[800]" in what or "_history" in what else ("sanitizer_report" if first else "abnormal_exit")
            report = dict(prop="C10", kind=kind, session=name, detail=dict(report=what[:400], where=where, exit=r.returncode, stderr_tail=err[-1200:]))
            ck.discrepancy({"kind": kind, "where": where.split("/")[-1] if where else "", "session": name.split("_")[0] + "_" + name.split("_")[1]}, report)
        summ = None
        try:
            summ = json.loads(r.stdout.strip().splitlines()[-1])
        except Exception:
            pass
        results.append(dict(session=name, commands=len(script), exit=r.returncode, summary=summ, sanitizer=report["detail"]["report"] if report else None))
        if summ:
            if summ["gos"] != summ["answered"]:
                ck.discrepancy({"kind": "go_not_answered", "session": name}, dict(prop="C10", kind="go_not_answered", session=name, detail=summ))
            if summ["max_depth_index"] > 40 or summ["max_ply"] + 1 >= 80:
                ck.discrepancy({"kind": "index_out_of_bounds", "session": name}, dict(prop="C10", kind="index_out_of_bounds", session=name, detail=summ))
    # 6. the end of a session, as whole processes of the engine's own executable (same tree, same sanitizers): `quit` or end of input may
    #    arrive while a search is running; the process must leave with status 0, promptly, without a sanitizer report or a signal
    engine = build.engine_exe("asan")
    busy_fen = "r1b1k2r/ppppqppp/2n2n2/2b1p3/2B1P3/2N2N2/PPPPQPPP/R1B1K2R w KQkq - 0 1"
    ends = [("quit_while_searching", ["position startpos", "go infinite", "@sleep 150", "quit"]),
            ("quit_while_searching_deep", ["position fen " + busy_fen, "go depth 30", "@sleep 60", "quit"]),
            ("quit_right_after_go", ["position startpos", "go infinite", "quit"]),
            ("end_of_input_while_searching", ["position startpos", "go infinite", "@sleep 100"]),
            ("quit_after_stop", ["position startpos", "go infinite", "@sleep 50", "stop", "@wait bestmove", "quit"]),
            ("quit_after_bestmove", ["position fen " + busy_fen, "go movetime 30", "@wait bestmove", "quit"]),
            ("quit_idle", ["uci", "isready", "ucinewgame", "quit"]),
            # a go that arrives while a search is running ends that search first (both are answered), the reader stays responsive
            ("go_while_searching", ["position startpos", "go infinite", "@sleep 80", "go infinite", "isready", "@wait readyok", "stop", "@wait bestmove", "@wait bestmove", "quit"])]
    end_results = []
    for name, script in ends:
        for rep in range(8 if full else 4):
            # alternately the sanitizer build (reports) and the plain build (natural timing, exit status / signal)
            res = process_session(engine if rep % 2 == 0 else build.engine_exe("plain"), script, asan_env if rep % 2 == 0 else {})
            end_results.append(dict(session=name, build="asan" if rep % 2 == 0 else "plain", **{k: res[k] for k in ("exit", "seconds")}))
            bad = res["exit"] != 0 or res["report"]
            if bad:
                kind = "crash_at_end_of_session" if res["exit"] < 0 or res["exit"] in (66, 67, 139, 134) or res["report"] else "abnormal_exit"
                if res["exit"] == "timeout":
                    kind = "process_does_not_end"
                ck.discrepancy({"kind": kind, "session": name},
                               dict(prop="C10", kind=kind, session=name, detail=dict(script=script, exit=res["exit"], report=res["report"], stderr_tail=res["stderr"][-1200:])))
    ck.cov["end_of_session_runs"] = end_results
    # 7. indeterminate values: the engine's executable built with g++ -O0 + ASan + UBSan performs every load the source performs, so
    #    a copy of a half-initialised object (bool / enum members never set) is reported as a load of an invalid value
    gsan = build.gsan_engine()
    usess = [("uci_handshake", ["uci", "@wait uciok", "isready", "@wait readyok", "ucinewgame", "quit"]),
             ("options_and_search", ["setoption name Polyglot Sample value best", "position startpos moves e2e4 e7e5", "go depth 3", "@wait bestmove", "printboard", "quit"]),
             ("newgame_and_clock", ["ucinewgame", "position startpos", "go wtime 200 btime 200", "@wait bestmove", "isready", "@wait readyok", "quit"])]
    indet = []
    for name, script in usess:
        res = process_session(gsan, script, {"ASAN_OPTIONS": "detect_leaks=0", "UBSAN_OPTIONS": "print_stacktrace=0"}, limit_s=60)
        rep = sorted(set(l.strip() for l in res["stderr"].splitlines() if "runtime error:" in l or "ERROR: AddressSanitizer" in l))
        indet.append(dict(session=name, exit=res["exit"], reports=rep[:5]))
        for line in rep:
            where = line.split(" runtime error:")[0].split("/")[-1] if " runtime error:" in line else ""
            kind = "indeterminate_value_loaded" if "not a valid value for type" in line else "sanitizer_report"
            ck.discrepancy({"kind": kind, "where": where}, dict(prop="C10", kind=kind, session=name, detail=dict(report=line[:300], script=script)))
        if res["exit"] != 0:
            ck.discrepancy({"kind": "abnormal_exit", "session": name}, dict(prop="C10", kind="abnormal_exit", session=name, detail=dict(exit=res["exit"], stderr_tail=res["stderr"][-800:])))
    ck.cov["indeterminate_value_sessions"] = indet
    # 8. the same question asked of the optimised build by valgrind's memcheck: a conditional jump, an address or a system call that
    #    depends on an uninitialised value; positions loaded from FENs of every specialised endgame class (piece lists partly unused),
    #    searched to depth 2 / 3 through the real front end
    cf = os.path.join(ck.work, "classpool.txt")
    core.run_vh(plain, ["pool", "--roots", core.roots_file("roots_lowmat.fen"), "--games", 0, "--sparse", 0, "--classes", 3 if full else 1, "--out", cf, "--seed", core.seed() + 41])
    sparse_pool = [dict(fen=l.split("|")[0], src=l.rstrip("\n").split("|")[5]) for l in open(cf)]
    sparse_pool = [p for p in sparse_pool if p["src"] == "class"]
    if len(sparse_pool) < 40:
        raise InfraError("class pool for the valgrind session too small: %d" % len(sparse_pool))
    vscript = ["uci", "@wait uciok", "ucinewgame"]
    for pp in sparse_pool:
        vscript += ["position fen " + pp["fen"], "go depth %d" % rnd.choice([2, 3]), "@wait bestmove"]
    vscript += ["position startpos moves e2e4 c7c5", "go depth 3", "@wait bestmove", "isready", "@wait readyok", "quit"]
    res = process_session(["valgrind", "--error-exitcode=9", "-q", build.engine_exe("plain")], vscript, {}, limit_s=300)
    vrep = [l for l in res["stderr"].splitlines() if l.startswith("==") and ("uninitialised" in l or "Invalid read" in l or "Invalid write" in l)]
    ck.cov["valgrind_session"] = dict(positions=len(vscript) // 3, exit=res["exit"], reports=len(vrep), bestmoves=len([l for l in res["out"] if l.startswith("bestmove")]))
    if vrep or res["exit"] != 0:
        where = ""
        for l in res["stderr"].splitlines():
            if " at 0x" in l or " by 0x" in l:
                if "engine::" in l:
                    where = l.split("engine::")[1].split("(")[0][:60]
                    break
        kind = "uninitialised_value_used" if any("uninitialised" in l for l in vrep) else ("invalid_access" if vrep else "abnormal_exit")
        ck.discrepancy({"kind": kind, "where": where}, dict(prop="C10", kind=kind, session="valgrind", detail=dict(exit=res["exit"], first=vrep[:3], where=where, stderr_tail=res["stderr"][-1500:])))
    if ck.cov["valgrind_session"]["bestmoves"] < 10:
        raise InfraError("valgrind session answered only %d searches" % ck.cov["valgrind_session"]["bestmoves"])
    # well-formedness of the generated long games, decided by the rules specification
    viols, cnt, st = core.validate_shards(wf_shards)
    ck.add_states(st["generated"], st["distinct"])
    illformed = [v for v in viols if v.get("kind") in ("illformed_session", "uninterpretable_move")]
    if illformed:
        raise InfraError("generated long game is not a legal game: %s" % json.dumps(illformed[0])[:400])
    if cnt.get("wf_cmp", 0) == 0:
        raise InfraError("vacuous well-formedness validation")
    # in-process runs under the sanitizers with the hook-observed indices validated by the SearchTrace monitor
    plan = []
    for fen in BIG + TINY:
        for d in [1, 2, 3]:
            plan.append(plan_line(fen, "depth %d" % d, tt=rnd.choice(["fresh", "warm", "poison"]), tag="cap"))
    for i in range(200 if full else 40):
        p = rnd.choice(pool)
        plan.append(plan_line(p["fen"], rnd.choice(["depth 2", "depth 3", "depth 4", "movetime 5", "nodes 3000"]), tt=rnd.choice(["warm", "poison"]),
                              stop_id=rnd.choice(["", "", "node", "qnode"]), stop_n=rnd.randint(1, 500), tag="cap"))
    v2, c2, info, sh = run_plan(ck, exe, plan, "c", env_extra=asan_env, timeout=3000)
    take(ck, "C10", v2, others)
    for c in info.get("crashes", []):
        tail = c["detail"].get("stderr_tail", "")
        first = [l for l in tail.splitlines() if "runtime error:" in l or "ERROR: AddressSanitizer" in l]
        ck.discrepancy({"kind": "sanitizer_report" if first else "abnormal_exit", "where": (first[0].split(" runtime error:")[0].split("/")[-1] if first and "runtime error:" in first[0] else ""),
                        "session": "inprocess"}, dict(c, prop="C10"))
    ck.cov["evaluations"] = sum(r["commands"] for r in results) + c2["go"]
    ck.cov["distinct_nontrivial"] = len(sessions) + c2["go"]
    ck.cov["rule"] = ("boundary sessions of every fixed-size table, run through the real UCI front end (Uci::loop reader thread + search threads) in a child process of the harness "
                      "built with AddressSanitizer + UndefinedBehaviorSanitizer (array-bounds checks on every fixed-size array): legal games of 801..%d plies (generated, and "
                      "validated as legal, never-finished games by the RulesTrace monitor: %d moves checked) replayed with `position ... moves` at 799/800/801 plies and beyond, "
                      "`go depth` 40/41/60/200 on tiny trees, positions with 218 legal moves and ten pieces of one kind through go and perft, searchmoves with every legal move, "
                      "repeated ucinewgame with depth/movetime/clock/node limits, forcing lines at higher depth; plus in-process searches under the sanitizers whose hook-observed "
                      "indices (per-depth array index, search-stack ply) are checked by the SearchTrace monitor. A sanitizer report, an abnormal exit or an unanswered go is a "
                      "violation. Design level: index-bound invariants of SearchSession.tla") % (3200 if full else 1700, cnt["wf_cmp"])
    ck.cov["sessions"] = results
    ck.cov["monitor_counters"] = c2
    ck.cov["traces_validated_against_impl"] += len(sessions)
    ck.sample(dict(session=sessions[1][0], script=sessions[1][1][:6]))
    ck.sample(dict(session=sessions[0][0], script=[l[:120] + " ..." for l in sessions[0][1][:3]]))
    ck.assumptions += ["memory safety is observed (sanitizers on generated boundary sessions), not proved; use of uninitialised values is not decided (no MSan-instrumented libstdc++ here)",
                       "out-of-bounds accesses at sites neither reached by these sessions nor covered by the index-bound invariants are not detected"]
    note_others(ck, others)
    return ck.finish()


CHECKS = {"C05": c05, "C06": c06, "C08": c08, "C09": c09, "C10": c10}
