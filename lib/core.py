"""Runner core: TLC invocation, sharded trace validation, discrepancy handling,
known findings, evidence."""
import glob, json, os, re, shutil, subprocess, sys, time, hashlib
from concurrent.futures import ThreadPoolExecutor

VERIF = os.path.dirname(os.path.dirname(os.path.abspath(__file__)))
SPEC = os.path.join(VERIF, "spec")
TLA_CP = "/opt/veriftools/tla/tla2tools.jar:/opt/veriftools/tla/CommunityModules-deps.jar"
NCPU = 16


class InfraError(Exception):
    pass


def workdir(pid):
    d = os.path.join(VERIF, ".work", pid)
    shutil.rmtree(d, ignore_errors=True)
    os.makedirs(d, exist_ok=True)
    return d


def seed():
    try:
        return int(os.environ.get("VERIF_SEED", "1"))
    except ValueError:
        return 1


# ------------------------------------------------------------------ TLC
_STATS = re.compile(r"(\d+) states generated, (\d+) distinct states found")


def parse_tlc_strings(out):
    """PrintT of a string prints it as a TLA+ string literal; recover the payloads."""
    res = []
    for line in out.splitlines():
        if len(line) >= 2 and line[0] == '"' and line[-1] == '"':
            try:
                res.append(json.loads(line))
            except Exception:
                # TLC escapes only \\ and \" ; fall back to a manual unescape
                res.append(line[1:-1].replace('\\"', '"').replace('\\\\', '\\'))
    return res


def tlc(module, cfg=None, env=None, workers=1, timeout=900, metadir=None, xmx="3g", extra=None, cwd=SPEC, simulate=None, deque=False):
    """Run TLC; returns dict(out, rc, generated, distinct, strings). Raises InfraError on timeouts/crashes
    that are not verdicts (rc 0 = ok, 12/13 = safety/liveness/postcondition violation)."""
    md = metadir or os.path.join(VERIF, ".work", "md-%d-%d" % (os.getpid(), int(time.time() * 1e6) % 10**9))
    cmd = ["java", "-Xmx" + xmx, "-Xss256m", "-XX:+UseParallelGC"]
    if deque:
        cmd.append("-Dtlc2.tool.queue.IStateQueue=StateDeque")
    cmd += ["-cp", TLA_CP, "tlc2.TLC", "-noGenerateSpecTE", "-workers", str(workers), "-metadir", md]
    if cfg:
        cmd += ["-config", cfg]
    if simulate:
        cmd += ["-simulate", simulate]
    cmd += (extra or []) + [module]
    e = dict(os.environ)
    e.update(env or {})
    t0 = time.time()
    try:
        r = subprocess.run(cmd, cwd=cwd, env=e, capture_output=True, text=True, timeout=timeout)
    except subprocess.TimeoutExpired:
        shutil.rmtree(md, ignore_errors=True)
        raise InfraError("TLC timeout after %ds: %s" % (timeout, module))
    shutil.rmtree(md, ignore_errors=True)
    out = r.stdout + r.stderr
    m = None
    for m in _STATS.finditer(out):
        pass
    res = dict(out=out, rc=r.returncode, generated=int(m.group(1)) if m else 0, distinct=int(m.group(2)) if m else 0,
               strings=parse_tlc_strings(r.stdout), wall=time.time() - t0)
    return res


def tlc_ok(res, what, allow=(0,)):
    if res["rc"] not in allow:
        tail = "\n".join(res["out"].splitlines()[-25:])
        raise InfraError("TLC failed (%s, rc=%d):\n%s" % (what, res["rc"], tail))
    return res


# ------------------------------------------------------------------ trace validation
def validate_shards(shards, module="RulesTrace.tla", cfg="RulesTrace.cfg", timeout=1500, xmx="3g", env_extra=None):
    """Validate every ndjson shard with its own single-worker TLC (monitors are single paths).
    Returns (viols, counters, stats). A shard whose monitor did not consume every line is an infrastructure error."""
    shards = [s for s in shards if os.path.getsize(s) > 0]

    def one(path):
        env = {"TRACE": path}
        env.update(env_extra or {})
        for attempt in (1, 2):
            try:
                res = tlc(module, cfg=cfg, env=env, workers=1, timeout=timeout, xmx=xmx,
                          metadir=path + ".md%d" % attempt)
            except InfraError as ex:
                if attempt == 2:
                    raise
                continue
            if res["rc"] == 0:
                return res
            if attempt == 2:
                tail = "\n".join(res["out"].splitlines()[-30:])
                raise InfraError("monitor did not accept %s (rc=%d):\n%s" % (path, res["rc"], tail))
    with ThreadPoolExecutor(max_workers=NCPU) as ex:
        results = list(ex.map(one, shards))
    viols, cnt, gen, dist = [], {}, 0, 0
    for path, res in zip(shards, results):
        gen += res["generated"]
        dist += res["distinct"]
        seen = set()
        got_cnt = False
        for s in res["strings"]:
            if s.startswith("VIOL "):
                if s in seen:
                    continue
                seen.add(s)
                v = json.loads(s[5:])
                v["shard"] = path
                viols.append(v)
            elif s.startswith("CNT ") and not got_cnt:
                got_cnt = True
                for k, val in json.loads(s[4:]).items():
                    cnt[k] = cnt.get(k, 0) + val
        if not got_cnt:
            raise InfraError("monitor printed no counters for %s" % path)
    return viols, cnt, dict(generated=gen, distinct=dist, shards=len(shards))


def count_lines(paths):
    n = 0
    for p in paths:
        with open(p, "rb") as f:
            n += sum(1 for _ in f)
    return n


def distinct_fens(paths, pred=None, limit=None):
    """distinct positions observed in pos events (by the engine's 4-field FEN); pred filters event dicts"""
    seen = set()
    for p in paths:
        with open(p) as f:
            for line in f:
                if '"e":"pos"' not in line:
                    continue
                ev = json.loads(line)
                if pred and not pred(ev):
                    continue
                seen.add(" ".join(ev["fen"].split()[:4]))
    return seen


# ------------------------------------------------------------------ known findings
def load_known():
    p = os.path.join(VERIF, "known_findings.json")
    if not os.path.exists(p):
        return []
    return json.load(open(p)).get("findings", [])


def match_known(prop, sig):
    """an open finding suppresses a discrepancy iff every key of its 'match' equals the discrepancy's signature"""
    for f in load_known():
        if f.get("property") != prop or f.get("status") != "open":
            continue
        m = f.get("match", {})
        if m and all(sig.get(k) == v for k, v in m.items()):
            return f
    return None


# ------------------------------------------------------------------ check context
class Check:
    def __init__(self, pid, tier, level):
        self.pid, self.tier, self.level = pid, tier, level
        self.t0 = time.time()
        self.work = workdir(pid)
        self.cov = dict(evaluations=0, distinct_nontrivial=0, rule="", samples=[], states=0, transitions=0,
                        traces_validated_against_impl=0)
        self.assumptions = []
        self.viol = []          # unlisted discrepancies: (signature, record)
        self.known = {}         # finding id -> count
        self.notes = []

    def add_states(self, generated, distinct):
        self.cov["states"] += int(distinct)
        self.cov["transitions"] += int(generated)

    def sample(self, x, cap=6):
        if len(self.cov["samples"]) < cap:
            self.cov["samples"].append(x)

    def discrepancy(self, sig, rec):
        """sig: normalised signature dict (matched against known findings); rec: full record for the replay file"""
        f = match_known(self.pid, sig)
        if f is not None:
            key = f.get("id") or json.dumps(f.get("match"), sort_keys=True)
            if key not in self.known:
                self.known[key] = [f, 0]
            self.known[key][1] += 1
            return
        self.viol.append((sig, rec))

    def finish(self):
        wall = time.time() - self.t0
        for key, (f, n) in self.known.items():
            print("KNOWN-FINDING: property=%s %s (%d occurrence(s) this run)" % (self.pid, f.get("what", key), n))
        rc = 0
        replay_paths = []
        # group unlisted discrepancies by signature; one replay file per group (first 20 members kept)
        groups = {}
        for sig, rec in self.viol:
            groups.setdefault(json.dumps(sig, sort_keys=True), []).append(rec)
        for i, (k, recs) in enumerate(sorted(groups.items())):
            path = os.path.join(self.work, "viol-%d.json" % i)
            with open(path, "w") as f:
                json.dump(dict(property=self.pid, signature=json.loads(k), count=len(recs), cases=recs[:20]), f, indent=1, default=str)
            replay_paths.append(path)
            print("VIOLATION property=%s replay=%s" % (self.pid, path))
            print("  signature=%s count=%d first=%s" % (k, len(recs), json.dumps(recs[0], default=str)[:600]))
            rc = 1
        ev = dict(property_id=self.pid, tier=self.tier, seed=seed(), level=self.level, coverage=self.cov,
                  assumptions=self.assumptions, wall_s=round(wall, 2), violations=len(groups),
                  known_findings_observed=[dict(what=f.get("what"), occurrences=n) for f, n in self.known.values()],
                  notes=self.notes)
        if not self.cov["samples"]:
            self.cov["samples"] = ["(no sample recorded)"]
        os.makedirs(os.path.join(VERIF, "evidence"), exist_ok=True)
        with open(os.path.join(VERIF, "evidence", self.pid + ".json"), "w") as f:
            json.dump(ev, f, indent=1, default=str)
        print("%s %s: %s in %.1fs (evaluations=%d, distinct_nontrivial=%d, states=%d, traces=%d)" % (
            self.pid, self.tier, "OK" if rc == 0 else "VIOLATED", wall, self.cov["evaluations"],
            self.cov["distinct_nontrivial"], self.cov["states"], self.cov["traces_validated_against_impl"]))
        return rc


def run_vh(exe, args, timeout=900, env=None, check=True, capture=True):
    e = dict(os.environ)
    e.update(env or {})
    try:
        r = subprocess.run([exe] + [str(a) for a in args], capture_output=capture, text=True, timeout=timeout, env=e)
    except subprocess.TimeoutExpired:
        raise InfraError("harness timeout: %s" % " ".join(map(str, args[:4])))
    if check and r.returncode != 0:
        raise InfraError("harness failed rc=%d: %s\n%s" % (r.returncode, " ".join(map(str, args[:6])), (r.stderr or "")[-3000:]))
    return r


def roots_file(name):
    return os.path.join(VERIF, "data", name)
