------------------------------- MODULE ChessText -------------------------------
EXTENDS Chess
Files == <<"a","b","c","d","e","f","g","h">>
Ranks == <<"1","2","3","4","5","6","7","8">>
PieceCh == <<"P","N","B","R","Q","K","p","n","b","r","q","k">>
PromoCh == <<"", "n", "b", "r", "q">>
SqName(s) == Files[File(s) + 1] \o Ranks[Rank(s) + 1]
Uci(m) == SqName(MFrom(m)) \o SqName(MTo(m)) \o (IF MPromo(m) = 0 THEN "" ELSE PromoCh[MPromo(m)])

RECURSIVE FenRank(_,_,_,_)
FenRank(b, r, f, empties) ==
  IF f > 7 THEN (IF empties > 0 THEN ToString(empties) ELSE "")
  ELSE LET p == b[MkSq(f, r)] IN
       IF p = 0 THEN FenRank(b, r, f + 1, empties + 1)
       ELSE (IF empties > 0 THEN ToString(empties) ELSE "") \o PieceCh[p] \o FenRank(b, r, f + 1, 0)
RECURSIVE FenBoard(_,_)
FenBoard(b, r) == IF r = 0 THEN FenRank(b, 0, 0, 0) ELSE FenRank(b, r, 0, 0) \o "/" \o FenBoard(b, r - 1)
CastleStr(c) == IF c = 0 THEN "-" ELSE
   (IF HasBit(c,1) THEN "K" ELSE "") \o (IF HasBit(c,2) THEN "Q" ELSE "") \o
   (IF HasBit(c,4) THEN "k" ELSE "") \o (IF HasBit(c,8) THEN "q" ELSE "")
Fen(pos) == FenBoard(pos.board, 7) \o " " \o (IF pos.stm = 0 THEN "w" ELSE "b") \o " " \o CastleStr(pos.castle)
            \o " " \o (IF pos.ep = -1 THEN "-" ELSE SqName(pos.ep)) \o " " \o ToString(pos.hmc) \o " " \o ToString(pos.fmn)
=============================================================================
