------------------------------- MODULE ChessParse -------------------------------
EXTENDS ChessText
Ch(s, i) == SubSeq(s, i, i)
PieceOfCh(c) == CASE c = "P" -> 1 [] c = "N" -> 2 [] c = "B" -> 3 [] c = "R" -> 4 [] c = "Q" -> 5 [] c = "K" -> 6
                  [] c = "p" -> 7 [] c = "n" -> 8 [] c = "b" -> 9 [] c = "r" -> 10 [] c = "q" -> 11 [] c = "k" -> 12 [] OTHER -> 0
DigitOf(c) == CASE c = "0" -> 0 [] c = "1" -> 1 [] c = "2" -> 2 [] c = "3" -> 3 [] c = "4" -> 4 [] c = "5" -> 5
                [] c = "6" -> 6 [] c = "7" -> 7 [] c = "8" -> 8 [] c = "9" -> 9 [] OTHER -> -1
\* split on spaces
RECURSIVE Split(_,_,_,_)
Split(s, i, cur, acc) ==
  IF i > Len(s) THEN (IF cur = "" THEN acc ELSE Append(acc, cur))
  ELSE IF Ch(s, i) = " " THEN Split(s, i + 1, "", IF cur = "" THEN acc ELSE Append(acc, cur))
  ELSE Split(s, i + 1, cur \o Ch(s, i), acc)
\* placement: returns function sq -> piece
RECURSIVE Place(_,_,_,_,_)
Place(s, i, f, r, b) ==
  IF i > Len(s) THEN b
  ELSE LET c == Ch(s, i) IN
       IF c = "/" THEN Place(s, i + 1, 0, r - 1, b)
       ELSE IF DigitOf(c) >= 0 THEN Place(s, i + 1, f + DigitOf(c), r, b)
       ELSE Place(s, i + 1, f + 1, r, [b EXCEPT ![MkSq(f, r)] = PieceOfCh(c)])
RECURSIVE Num(_,_,_)
Num(s, i, acc) == IF i > Len(s) THEN acc ELSE Num(s, i + 1, acc * 10 + DigitOf(Ch(s, i)))
RECURSIVE CastleMask(_,_)
CastleMask(s, i) == IF i > Len(s) THEN 0 ELSE
   (CASE Ch(s,i) = "K" -> 1 [] Ch(s,i) = "Q" -> 2 [] Ch(s,i) = "k" -> 4 [] Ch(s,i) = "q" -> 8 [] OTHER -> 0) + CastleMask(s, i + 1)
FileOfCh(c) == CHOOSE f \in 0..7 : Files[f + 1] = c
ParseSq(s) == MkSq(FileOfCh(Ch(s, 1)), DigitOf(Ch(s, 2)) - 1)
ParseFen(s) ==
  LET t == Split(s, 1, "", <<>>) IN
  [board |-> Place(t[1], 1, 0, 7, [q \in Sq |-> 0]),
   stm |-> IF t[2] = "w" THEN 0 ELSE 1,
   castle |-> CastleMask(t[3], 1),
   ep |-> IF t[4] = "-" THEN -1 ELSE ParseSq(t[4]),
   hmc |-> Num(t[5], 1, 0),
   fmn |-> Num(t[6], 1, 0)]
ParseUci(s) == Mv(ParseSq(SubSeq(s, 1, 2)), ParseSq(SubSeq(s, 3, 4)),
                  IF Len(s) < 5 THEN 0 ELSE CASE Ch(s,5) = "n" -> 2 [] Ch(s,5) = "b" -> 3 [] Ch(s,5) = "r" -> 4 [] OTHER -> 5)
=============================================================================
