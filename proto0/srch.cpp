#include "endgame.h"
#include "movegen.h"
#include "position.h"
#include "score.h"
#include "search.h"
#include "zobrist_hash.h"
#include <random>
#include <cstdio>
#include <map>
#include <sstream>
#include <iostream>
using namespace engine;
int main(int argc,char**argv){ move_bitboards::init(); zobrist::init(); bitbase::init(); endgame::init();
  std::mt19937 rng(atoi(argv[1])); int games=atoi(argv[2]);
  static tt::TTable tt; static PositionScorer sc;
  long runs=0, mates=0, mate0=0; std::map<std::string,int> ys;
  for(int g=0;g<games;++g){ Position pos; int maxply = 30 + rng()%200;
    for(int ply=0;ply<maxply;++ply){ Move list[MAX_MOVES]; Move* end=generate_moves(pos,pos.color(),list); int k=end-list; if(k==0||pos.is_draw()) break;
      Move m=list[rng()%k]; if(rng()%2){ for(int t=0;t<k;++t){ Move c=list[rng()%k]; if(pos.move_is_capture(c)){m=c;break;} } }
      pos.do_move(m);
      if (ply%7==3){ Move l2[MAX_MOVES]; if(generate_moves(pos,pos.color(),l2)==l2 || pos.is_draw()) break;
        Limits lim; lim.depth = 1 + rng()%3; tt.clear(); sc.clear();
        std::ostringstream cap; auto* old=std::cout.rdbuf(cap.rdbuf());
        { Search s(pos, lim, sc, tt); s.go(); }
        std::cout.rdbuf(old); runs++;
        std::istringstream in(cap.str()); std::string line, lastinfo;
        while(std::getline(in,line)){ if(line.rfind("info depth",0)==0) lastinfo=line; }
        size_t p=lastinfo.find("score mate "); if(p!=std::string::npos){ mates++; std::string y=lastinfo.substr(p+11, lastinfo.find(' ',p+11)-(p+11)); ys[y]++; if(ys[y]<=2) printf("y=%s d=%d fen=%s | %s\n", y.c_str(), lim.depth, pos.fen().c_str(), lastinfo.substr(0,100).c_str()); }
      } } }
  printf("runs=%ld mates=%ld\n",runs,mates); for(auto&kv:ys) printf("  y=%s : %d\n",kv.first.c_str(),kv.second);
}
