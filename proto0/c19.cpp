#include <string>
#include <vector>
#include <map>
#include <regex>
#include <random>
#include <iostream>
#include <sstream>
#include <fstream>
#define private public
#include "polyglot.h"
#undef private
#include "endgame.h"
#include "movegen.h"
#include "zobrist_hash.h"
#include <cstdio>
using namespace engine;
void rec(std::ofstream& f, uint64_t key, int from, int to, int w){ unsigned char e[16]={0}; for(int i=0;i<8;i++) e[i]=(key>>(56-8*i))&0xFF; int mv=((from/8)<<9)|((from%8)<<6)|((to/8)<<3)|(to%8); e[8]=mv>>8; e[9]=mv&0xFF; e[10]=w>>8; e[11]=w&0xFF; f.write((char*)e,16); }
int main(){ move_bitboards::init(); zobrist::init(); bitbase::init(); endgame::init();
  Position pos; uint64_t key=PolyglotBook::hash(pos);
  { std::ofstream f("/tmp/proto/b.bin",std::ios::binary); rec(f,key,12,28,0); rec(f,key,11,27,5); }
  PolyglotBook b("/tmp/proto/b.bin", 42);
  printf("records for key: %zu (file has 2)\n", b._hashmap[key].size());
  for(auto&wm: b._hashmap[key]) printf("  %s w=%d\n", pos.uci(wm.first).c_str(), wm.second);
  std::map<std::string,int> cnt; int mism=0;
  for(int i=0;i<2000;i++){ auto g=b._gen; auto d=b._dist; unsigned long r=d(g); int sum=0; for(auto&wm:b._hashmap[key]) sum+=wm.second; int sample=r%sum;
    Move m=b.get_random_move(key,pos); cnt[pos.uci(m)]++;
    // interval semantics over the loaded list
    int w=0; size_t j=0; while(j<b._hashmap[key].size() && !(sample < w + b._hashmap[key][j].second)) { w+=b._hashmap[key][j].second; j++; }
    if(b._hashmap[key][j].first!=m) mism++; }
  for(auto&kv:cnt) printf("  picked %s %d\n",kv.first.c_str(),kv.second); printf("interval-semantics mismatches: %d of 2000\n",mism);
  { std::ofstream f("/tmp/proto/e.bin",std::ios::binary); } PolyglotBook e("/tmp/proto/e.bin",1); printf("empty file -> %zu keys\n", e._hashmap.size());
}
