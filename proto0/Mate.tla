------------------------------- MODULE Mate -------------------------------
EXTENDS ChessParse
IsMate(p) == InCheck(p) /\ Legal(p) = {}
RECURSIVE CanMate(_,_), Doomed(_,_)
\* side to move can force mate within n of its own moves
CanMate(p, n) == n >= 1 /\ \E m \in Legal(p) : LET q == Apply(p, m) IN Doomed(q, n - 1)
\* side to move is mated now, or cannot avoid being mated within n more moves of the opponent
Doomed(q, n) == LET L == Legal(q) IN
   IF L = {} THEN InCheck(q)
   ELSE n >= 1 /\ \A r \in L : CanMate(Apply(q, r), n)
CanMateHint(p, n, h) == LET q == Apply(p, h) IN h \in Legal(p) /\ Doomed(q, n - 1)
P1 == ParseFen("r5k1/5ppp/8/8/8/8/1R6/1RK5 w - - 0 1")
P0 == ParseFen("6k1/5ppp/8/8/8/8/8/1RK5 w - - 0 1")
P2 == ParseFen("8/4k3/p7/P7/PP4KN/8/8/8 w - - 0 1")
ASSUME PrintT(<<"fen roundtrip", Fen(P1)>>)
ASSUME PrintT(<<"m1", CanMate(P0, 1), "t", TLCGet("stats").duration>>)
ASSUME PrintT(<<"m2 hint", CanMateHint(P1, 2, ParseUci("b2b8"))>>)
ASSUME PrintT(<<"m2 nohint", CanMate(P1, 2)>>)
ASSUME PrintT(<<"m1 false", CanMate(P1, 1)>>)
ASSUME PrintT(<<"quiet m2 false", CanMate(P2, 2)>>)
=============================================================================
