------------------------------- MODULE ChessTrace -------------------------------
EXTENDS ChessText, Json, IOUtils
TraceLog == ndJsonDeserialize(IOEnv.TRACE)
VARIABLES pos, l
vars == <<pos, l>>
ToSet(seq) == {seq[i] : i \in 1..Len(seq)}
Init == l = 2 /\ pos = StartPos /\ TraceLog[1].e = "reset" /\ TraceLog[1].fen = Fen(StartPos)
Reset == /\ l <= Len(TraceLog) /\ TraceLog[l].e = "reset" /\ TraceLog[l].fen = Fen(StartPos)
         /\ pos' = StartPos /\ l' = l + 1
Move == /\ l <= Len(TraceLog) /\ TraceLog[l].e = "move"
        /\ LET L == Legal(pos) IN
           /\ {Uci(m) : m \in L} = ToSet(TraceLog[l].moves)
           /\ Len(TraceLog[l].moves) = Cardinality(L)
           /\ \E m \in L : Uci(m) = TraceLog[l].m /\ pos' = Apply(pos, m) /\ Fen(pos') = TraceLog[l].fen
        /\ l' = l + 1
End == /\ l <= Len(TraceLog) /\ TraceLog[l].e = "end"
       /\ {Uci(m) : m \in Legal(pos)} = ToSet(TraceLog[l].moves)
       /\ l' = l + 1 /\ UNCHANGED pos
Next == Reset \/ Move \/ End
Accepted == TLCGet("stats").diameter = Len(TraceLog)
=============================================================================
