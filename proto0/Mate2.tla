------------------------------- MODULE Mate2 -------------------------------
EXTENDS ChessParse
IsMate(p) == InCheck(p) /\ Legal(p) = {}
RECURSIVE CanMate(_,_), Doomed(_,_)
\* side to move can force mate within n of its own moves
CanMate(p, n) == n >= 1 /\ \E m \in Legal(p) : LET q == Apply(p, m) IN Doomed(q, n - 1)
\* side to move is mated now, or cannot avoid being mated within n more moves of the opponent
Doomed(q, n) == LET L == Legal(q) IN
   IF L = {} THEN InCheck(q)
   ELSE n >= 1 /\ \A r \in L : CanMate(Apply(q, r), n)
CanMateHint(p, n, h) == LET q == Apply(p, h) IN h \in Legal(p) /\ Doomed(q, n - 1)
P1 == ParseFen("r5k1/5ppp/8/8/8/8/1R6/1RK5 w - - 0 1")
P0 == ParseFen("6k1/5ppp/8/8/8/8/8/1RK5 w - - 0 1")
P2 == ParseFen("8/4k3/p7/P7/PP4KN/8/8/8 w - - 0 1")
P3 == ParseFen("r2q1rk1/ppp2ppp/3p1n2/4p3/1bPnP3/2NP1BPP/PP1B1P2/R2QK2R b KQ - 2 10")
ASSUME PrintT(<<"mid m2 false", CanMate(P3, 2)>>)
ASSUME PrintT(<<"mid doomed2 false", Doomed(P3, 2)>>)
=============================================================================
