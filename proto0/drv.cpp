#include "endgame.h"
#include "movegen.h"
#include "position.h"
#include "zobrist_hash.h"
#include <random>
#include <cstdio>
using namespace engine;
int main(int argc, char** argv)
{
    move_bitboards::init(); zobrist::init(); bitbase::init(); endgame::init();
    int games = atoi(argv[1]); int seed = atoi(argv[2]);
    std::mt19937 rng(seed);
    for (int g = 0; g < games; ++g)
    {
        Position pos;
        printf("{\"e\":\"reset\",\"fen\":\"%s\"}\n", pos.fen().c_str());
        for (int ply = 0; ply < 80; ++ply)
        {
            Move list[MAX_MOVES];
            Move* end = generate_moves(pos, pos.color(), list);
            int n = end - list;
            std::string ms = "[";
            for (int i = 0; i < n; ++i) { ms += (i ? ",\"" : "\"") + pos.uci(list[i]) + "\""; }
            ms += "]";
            if (n == 0 || pos.is_draw()) { printf("{\"e\":\"end\",\"moves\":%s}\n", ms.c_str()); break; }
            Move m = list[rng() % n];
            std::string u = pos.uci(m);
            pos.do_move(m);
            printf("{\"e\":\"move\",\"moves\":%s,\"m\":\"%s\",\"fen\":\"%s\"}\n", ms.c_str(), u.c_str(), pos.fen().c_str());
        }
    }
}
