#ifndef VERIF_HOOK_H_
#define VERIF_HOOK_H_
#ifdef CHESSPP_VERIF
#include <cstdint>
namespace engine { namespace verif {
using Sink = void (*)(const char* id, int64_t a, int64_t b);
extern Sink sink;
} }
#define VERIF_POINT(id, a, b) do { if (::engine::verif::sink) ::engine::verif::sink((id), (int64_t)(a), (int64_t)(b)); } while (false)
#else
#define VERIF_POINT(id, a, b) do { } while (false)
#endif
#endif
