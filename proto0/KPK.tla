------------------------------- MODULE KPK -------------------------------
EXTENDS Integers, Sequences, FiniteSets, TLC, Json
\* White: king wk + pawn wp ; Black: king bk.  stm 0 = white, 1 = black
CONSTANT PawnFiles
File(s) == s % 8
Rank(s) == s \div 8
Dist(a, b) == LET df == IF File(a) > File(b) THEN File(a) - File(b) ELSE File(b) - File(a)
                  dr == IF Rank(a) > Rank(b) THEN Rank(a) - Rank(b) ELSE Rank(b) - Rank(a)
              IN IF df > dr THEN df ELSE dr
KingT == [s \in 0..63 |-> {t \in 0..63 : t # s /\ Dist(s, t) = 1}]
PawnAtt == [s \in 0..63 |-> IF Rank(s) = 7 THEN {} ELSE {t \in 0..63 : Rank(t) = Rank(s) + 1 /\ (File(t) = File(s) + 1 \/ File(t) = File(s) - 1)}]
Idx(stm, wk, wp, bk) == ((stm * 64 + wk) * 64 + wp) * 64 + bk
IStm(i) == i \div 262144
IWk(i) == (i \div 4096) % 64
IWp(i) == (i \div 64) % 64
IBk(i) == i % 64
PawnSqs == {s \in 8..55 : File(s) \in PawnFiles}
LegalPos(stm, wk, wp, bk) ==
  /\ wk # wp /\ bk # wp /\ Dist(wk, bk) > 1
  /\ (stm = 0 => bk \notin PawnAtt[wp])      \* side not to move not in check
AllPos == {Idx(stm, wk, wp, bk) : stm \in {0,1}, wk \in 0..63, wp \in PawnSqs, bk \in 0..63}
Positions == {i \in AllPos : LegalPos(IStm(i), IWk(i), IWp(i), IBk(i))}

\* black king legal destination squares
BkMoves(wk, wp, bk) == {t \in KingT[bk] : Dist(t, wk) > 1 /\ t \notin PawnAtt[wp]}
\* after promotion on square q to piece X in {Q,R}: win iff black cannot capture X and black is not stalemated
RookAtt(q, wk, t) == \* does a rook on q attack t with wk as only possible blocker (bk is transparent)
  /\ t # q
  /\ \/ (File(t) = File(q) /\ ~(File(wk) = File(q) /\ ((Rank(wk) > Rank(q) /\ Rank(wk) < Rank(t)) \/ (Rank(wk) < Rank(q) /\ Rank(wk) > Rank(t)))))
     \/ (Rank(t) = Rank(q) /\ ~(Rank(wk) = Rank(q) /\ ((File(wk) > File(q) /\ File(wk) < File(t)) \/ (File(wk) < File(q) /\ File(wk) > File(t)))))
BishAtt(q, wk, t) ==
  /\ t # q
  /\ (File(t) - File(q) = Rank(t) - Rank(q) \/ File(t) - File(q) = Rank(q) - Rank(t))
  /\ ~( (File(wk) - File(q) = Rank(wk) - Rank(q) \/ File(wk) - File(q) = Rank(q) - Rank(wk))
        /\ Dist(q, wk) < Dist(q, t)
        /\ (File(wk) - File(q)) * (File(t) - File(q)) > 0 /\ (Rank(wk) - Rank(q)) * (Rank(t) - Rank(q)) > 0 )
PromoWins(wk, q, bk, isQueen) ==
  LET att(t) == RookAtt(q, wk, t) \/ (isQueen /\ BishAtt(q, wk, t))
      canCapture == Dist(bk, q) = 1 /\ Dist(wk, q) > 1
      inCheck == att(bk)
      safe == {t \in KingT[bk] : Dist(t, wk) > 1 /\ t # q /\ ~att(t)}
  IN ~canCapture /\ (inCheck \/ safe # {})
WinNow(wk, wp, bk) ==  \* white to move, pawn on 7th, can promote to a winning Q or R
  /\ Rank(wp) = 6 /\ wp + 8 # wk /\ wp + 8 # bk
  /\ (PromoWins(wk, wp + 8, bk, TRUE) \/ PromoWins(wk, wp + 8, bk, FALSE))

WSucc(wk, wp, bk) ==  \* successors (black to move) of a white-to-move position, pawn stays a pawn
  {Idx(1, t, wp, bk) : t \in {u \in KingT[wk] : u # wp /\ Dist(u, bk) > 1}}
  \cup (IF Rank(wp) < 6 /\ wp + 8 # wk /\ wp + 8 # bk THEN {Idx(1, wk, wp + 8, bk)} ELSE {})
  \cup (IF Rank(wp) = 1 /\ wp + 8 # wk /\ wp + 8 # bk /\ wp + 16 # wk /\ wp + 16 # bk THEN {Idx(1, wk, wp + 16, bk)} ELSE {})

StepWin(W) ==
  {i \in Positions \ W :
     LET wk == IWk(i) wp == IWp(i) bk == IBk(i) IN
     IF IStm(i) = 0
     THEN WinNow(wk, wp, bk) \/ \E j \in WSucc(wk, wp, bk) : j \in W
     ELSE LET mv == BkMoves(wk, wp, bk) IN
          /\ mv # {}
          /\ wp \notin mv                      \* black may capture the pawn: draw
          /\ \A t \in mv : Idx(0, wk, wp, t) \in W}

VARIABLES W, n
Init == W = {} /\ n = 0
Next == LET D == StepWin(W) IN D # {} /\ W' = W \cup D /\ n' = n + 1 /\ PrintT(<<"iter", n + 1, Cardinality(D)>>)
Done == (StepWin(W) = {}) => /\ PrintT(<<"FIXPOINT", n, Cardinality(W), Cardinality(Positions)>>) /\ JsonSerialize("/tmp/proto/kpk_a.json", [win |-> W, legal |-> Positions])
=============================================================================
