
