CONSTANT PawnFiles = {0}
INIT Init
NEXT Next
CHECK_DEADLOCK FALSE
INVARIANT Done
