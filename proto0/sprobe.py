import subprocess, random, sys, re, collections
random.seed(int(sys.argv[1])); N=int(sys.argv[2])
eng='/repo/_build/chessplusplus'
def session(cmds, timeout=60):
    p=subprocess.run([eng],input='\n'.join(cmds)+'\n',capture_output=True,text=True,timeout=timeout)
    return p.stdout.splitlines()
# produce random positions via engine perft-based random walk: use 'perft 1' to list moves
def legal(moves):
    out=session(['position startpos moves '+' '.join(moves) if moves else 'position startpos','perft 1','quit'])
    return [l.split(':')[0] for l in out if re.match(r'^[a-h][1-8][a-h][1-8][nbrq]?: ',l)]
stats=collections.Counter(); examples={}
for g in range(N):
    moves=[]; L=random.randint(6,120)
    for i in range(L):
        lm=legal(moves)
        if not lm: break
        moves.append(random.choice(lm))
    lm=legal(moves)
    if not lm: continue
    d=random.choice([1,2,3,4])
    pos='position startpos moves '+' '.join(moves)
    cmds=[pos,'go depth %d'%d]
    p=subprocess.Popen([eng],stdin=subprocess.PIPE,stdout=subprocess.PIPE,text=True)
    p.stdin.write('\n'.join(cmds)+'\n'); p.stdin.flush()
    lines=[]
    while True:
        l=p.stdout.readline()
        if not l: break
        lines.append(l.strip())
        if l.startswith('bestmove'): break
    p.stdin.write('printboard\nquit\n'); p.stdin.flush(); rest=p.stdout.read(); p.wait()
    fen=[x for x in rest.splitlines() if x.startswith('Fen:')]
    infos=[l for l in lines if l.startswith('info depth')]
    depths=[int(l.split()[2]) for l in infos]
    bm=[l for l in lines if l.startswith('bestmove')]
    stats['runs']+=1
    if len(bm)!=1: stats['nobest']+=1
    elif bm[0].split()[1] not in lm: stats['illegal best']+=1; examples.setdefault('illegal best',(fen,bm))
    if depths!=list(range(1,len(depths)+1)): stats['depth gaps']+=1; examples.setdefault('gaps',(fen,depths))
    if depths and depths[-1]>d: stats['too deep']+=1
    for l in infos:
        m=re.search(r'score mate (\S+)',l)
        if m:
            stats['mate lines']+=1
            y=m.group(1)
            stats['mate y='+y]+=1
            examples.setdefault('mate y='+y,(fen,d,l[:120]))
print(stats)
for k,v in examples.items(): print(k,v)
