CONSTANTS MaxIter = 3  MaxNodes = 2  ResetInGo = FALSE  FallbackMove = TRUE
SPECIFICATION Spec
INVARIANT BestLegal
INVARIANT OneBest
PROPERTY NoNewIterAfterStop
CHECK_DEADLOCK FALSE
