#!/bin/bash
cd /tmp/proto
for i in $(seq 1 16); do
  ( TRACE=/tmp/proto/sh$i.ndjson timeout 600 java -Xmx2g -XX:+UseParallelGC -cp /opt/veriftools/tla/tla2tools.jar:/opt/veriftools/tla/CommunityModules-deps.jar tlc2.TLC -noGenerateSpecTE -workers 1 -metadir /tmp/proto/mdS$i -config ChessTrace.cfg ChessTrace.tla > out$i.txt 2>&1 ) &
done
wait
grep -l "Postcondition\|Error" out*.txt | head; grep -h "states generated" out*.txt | head -20
