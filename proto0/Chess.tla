------------------------------- MODULE Chess -------------------------------
EXTENDS Integers, Sequences, FiniteSets, TLC

\* pieces: 0 empty, 1..6 white P N B R Q K, 7..12 black p n b r q k
Sq == 0..63
File(s) == s % 8
Rank(s) == s \div 8
MkSq(f, r) == r * 8 + f
OnBoard(f, r) == f >= 0 /\ f <= 7 /\ r >= 0 /\ r <= 7
ColorOf(p) == IF p <= 6 THEN 0 ELSE 1      \* only for p # 0
KindOf(p) == IF p = 0 THEN 0 ELSE ((p - 1) % 6) + 1
Piece(c, k) == k + 6 * c

Dirs == << <<-1,1>>, <<0,1>>, <<1,1>>, <<1,0>>, <<1,-1>>, <<0,-1>>, <<-1,-1>>, <<-1,0>> >>
DiagDirs == {1,3,5,7}
OrthoDirs == {2,4,6,8}

RECURSIVE RayFrom(_,_,_,_)
RayFrom(f, r, df, dr) ==
  IF OnBoard(f+df, r+dr) THEN <<MkSq(f+df, r+dr)>> \o RayFrom(f+df, r+dr, df, dr) ELSE <<>>

RayT == [d \in 1..8 |-> [s \in Sq |-> RayFrom(File(s), Rank(s), Dirs[d][1], Dirs[d][2])]]

KnightD == {<<1,2>>,<<2,1>>,<<2,-1>>,<<1,-2>>,<<-1,-2>>,<<-2,-1>>,<<-2,1>>,<<-1,2>>}
KnightT == [s \in Sq |-> {MkSq(File(s)+d[1], Rank(s)+d[2]) : d \in {e \in KnightD : OnBoard(File(s)+e[1], Rank(s)+e[2])}}]
KingD == {<<1,0>>,<<1,1>>,<<0,1>>,<<-1,1>>,<<-1,0>>,<<-1,-1>>,<<0,-1>>,<<1,-1>>}
KingT == [s \in Sq |-> {MkSq(File(s)+d[1], Rank(s)+d[2]) : d \in {e \in KingD : OnBoard(File(s)+e[1], Rank(s)+e[2])}}]
\* squares from which a pawn of colour c attacks square s
PawnAttackersT == [c \in {0,1} |-> [s \in Sq |->
   LET r == IF c = 0 THEN Rank(s) - 1 ELSE Rank(s) + 1
   IN {MkSq(f, r) : f \in {g \in {File(s)-1, File(s)+1} : OnBoard(g, r)}}]]

\* first non-empty square along a ray sequence, or -1
RECURSIVE FirstOcc(_,_,_)
FirstOcc(b, seq, i) ==
  IF i > Len(seq) THEN -1
  ELSE IF b[seq[i]] # 0 THEN seq[i] ELSE FirstOcc(b, seq, i+1)

Attacked(b, s, c) ==   \* is square s attacked by colour c on board b
  \/ \E t \in PawnAttackersT[c][s] : b[t] = Piece(c, 1)
  \/ \E t \in KnightT[s] : b[t] = Piece(c, 2)
  \/ \E t \in KingT[s] : b[t] = Piece(c, 6)
  \/ \E d \in 1..8 :
        LET t == FirstOcc(b, RayT[d][s], 1) IN
        /\ t # -1
        /\ \/ b[t] = Piece(c, 5)
           \/ (d \in DiagDirs /\ b[t] = Piece(c, 3))
           \/ (d \in OrthoDirs /\ b[t] = Piece(c, 4))

KingSq(b, c) == CHOOSE s \in Sq : b[s] = Piece(c, 6)

\* moves: integer from + 64*to + 4096*promoKind
Mv(f, t, p) == f + 64 * t + 4096 * p
MFrom(m) == m % 64
MTo(m) == (m \div 64) % 64
MPromo(m) == m \div 4096

\* squares reachable along ray until blocker (inclusive if enemy)
RECURSIVE SlideTargets(_,_,_,_)
SlideTargets(b, seq, i, c) ==
  IF i > Len(seq) THEN {}
  ELSE IF b[seq[i]] = 0 THEN {seq[i]} \cup SlideTargets(b, seq, i+1, c)
  ELSE IF ColorOf(b[seq[i]]) # c THEN {seq[i]} ELSE {}

PromoKinds == {2,3,4,5}

PawnMoves(pos, s) ==
  LET b == pos.board
      c == pos.stm
      up == IF c = 0 THEN 1 ELSE -1
      r == Rank(s)  f == File(s)
      startR == IF c = 0 THEN 1 ELSE 6
      promoR == IF c = 0 THEN 6 ELSE 1
      one == MkSq(f, r + up)
      pushes == IF b[one] # 0 THEN {}
                ELSE {one} \cup (IF r = startR /\ b[MkSq(f, r + 2*up)] = 0 THEN {MkSq(f, r + 2*up)} ELSE {})
      caps == {MkSq(g, r + up) : g \in {h \in {f-1, f+1} : h >= 0 /\ h <= 7 /\
                   LET t == MkSq(h, r + up) IN
                     (b[t] # 0 /\ ColorOf(b[t]) # c) \/ t = pos.ep}}
      tg == pushes \cup caps
  IN IF r = promoR THEN {Mv(s, t, k) : t \in tg, k \in PromoKinds}
     ELSE {Mv(s, t, 0) : t \in tg}

PieceTargets(b, s, c, k) ==
  CASE k = 2 -> {t \in KnightT[s] : b[t] = 0 \/ ColorOf(b[t]) # c}
    [] k = 6 -> {t \in KingT[s] : b[t] = 0 \/ ColorOf(b[t]) # c}
    [] k = 3 -> UNION {SlideTargets(b, RayT[d][s], 1, c) : d \in DiagDirs}
    [] k = 4 -> UNION {SlideTargets(b, RayT[d][s], 1, c) : d \in OrthoDirs}
    [] k = 5 -> UNION {SlideTargets(b, RayT[d][s], 1, c) : d \in 1..8}

\* castling rights: subset of {"K","Q","k","q"} encoded as bitmask 1,2,4,8
HasBit(x, bit) == (x \div bit) % 2 = 1

CastleMoves(pos) ==
  LET b == pos.board  c == pos.stm
      ks == IF c = 0 THEN 4 ELSE 60
      opp == 1 - c
      kbit == IF c = 0 THEN 1 ELSE 4
      qbit == IF c = 0 THEN 2 ELSE 8
  IN IF Attacked(b, ks, opp) THEN {} ELSE
     (IF HasBit(pos.castle, kbit) /\ b[ks+1] = 0 /\ b[ks+2] = 0
         /\ ~Attacked(b, ks+1, opp) /\ ~Attacked(b, ks+2, opp)
      THEN {Mv(ks, ks+2, 0)} ELSE {})
     \cup
     (IF HasBit(pos.castle, qbit) /\ b[ks-1] = 0 /\ b[ks-2] = 0 /\ b[ks-3] = 0
         /\ ~Attacked(b, ks-1, opp) /\ ~Attacked(b, ks-2, opp)
      THEN {Mv(ks, ks-2, 0)} ELSE {})

IsCastle(pos, m) == KindOf(pos.board[MFrom(m)]) = 6 /\ (MTo(m) - MFrom(m) = 2 \/ MFrom(m) - MTo(m) = 2)

Pseudo(pos) ==
  LET b == pos.board  c == pos.stm
      own == {s \in Sq : b[s] # 0 /\ ColorOf(b[s]) = c}
  IN UNION {IF KindOf(b[s]) = 1 THEN PawnMoves(pos, s)
            ELSE {Mv(s, t, 0) : t \in PieceTargets(b, s, c, KindOf(b[s]))} : s \in own}

ClearBits(x, bits) == \* bits: set of single-bit values
  LET RECURSIVE go(_,_)
      go(v, S) == IF S = {} THEN v ELSE LET bt == CHOOSE e \in S : TRUE IN
                    go(IF HasBit(v, bt) THEN v - bt ELSE v, S \ {bt})
  IN go(x, bits)

RightsLostAt(s) == CASE s = 4 -> {1,2} [] s = 7 -> {1} [] s = 0 -> {2}
                     [] s = 60 -> {4,8} [] s = 63 -> {4} [] s = 56 -> {8} [] OTHER -> {}

Apply(pos, m) ==
  LET b == pos.board  c == pos.stm
      f == MFrom(m)  t == MTo(m)  pr == MPromo(m)
      p == b[f]  k == KindOf(p)
      isEp == k = 1 /\ t = pos.ep /\ pos.ep # -1
      isCastle == IsCastle(pos, m)
      capSq == IF isEp THEN MkSq(File(t), Rank(f)) ELSE t
      isCap == b[capSq] # 0
      placed == IF pr # 0 THEN Piece(c, pr) ELSE p
      b1 == [b EXCEPT ![f] = 0, ![capSq] = 0]
      b2 == [b1 EXCEPT ![t] = placed]
      b3 == IF ~isCastle THEN b2
            ELSE IF t > f THEN [b2 EXCEPT ![f+3] = 0, ![f+1] = Piece(c, 4)]
                 ELSE [b2 EXCEPT ![f-4] = 0, ![f-1] = Piece(c, 4)]
      dbl == k = 1 /\ (t - f = 16 \/ f - t = 16)
  IN [board |-> b3,
      stm |-> 1 - c,
      castle |-> ClearBits(pos.castle, RightsLostAt(f) \cup RightsLostAt(t)),
      ep |-> IF dbl THEN (f + t) \div 2 ELSE -1,
      hmc |-> IF k = 1 \/ isCap THEN 0 ELSE pos.hmc + 1,
      fmn |-> pos.fmn + c]

Legal(pos) ==
  LET c == pos.stm IN
  {m \in Pseudo(pos) : LET np == Apply(pos, m) IN ~Attacked(np.board, KingSq(np.board, c), 1 - c)}
  \cup CastleMoves(pos)

InCheck(pos) == Attacked(pos.board, KingSq(pos.board, pos.stm), 1 - pos.stm)

\* ---- FEN placement parsing from a sequence of 64 ints is done by the harness; here a start position
StartBoard == [s \in Sq |->
  CASE s \in {0,7} -> 4 [] s \in {1,6} -> 2 [] s \in {2,5} -> 3 [] s = 3 -> 5 [] s = 4 -> 6
    [] s \in 8..15 -> 1 [] s \in 48..55 -> 7
    [] s \in {56,63} -> 10 [] s \in {57,62} -> 8 [] s \in {58,61} -> 9 [] s = 59 -> 11 [] s = 60 -> 12
    [] OTHER -> 0]
StartPos == [board |-> StartBoard, stm |-> 0, castle |-> 15, ep |-> -1, hmc |-> 0, fmn |-> 1]
=============================================================================
