#include "endgame.h"
#include "movegen.h"
#include "position.h"
#include "zobrist_hash.h"
#include <cstdio>
#include <fstream>
#include <set>
#include <sstream>
#include <map>
using namespace engine;
int main(){ move_bitboards::init(); zobrist::init(); bitbase::init(); endgame::init();
 std::ifstream f("/tmp/proto/f1.txt"); std::string line; int n=0,bad=0; std::map<std::string,int> kinds;
 while(std::getline(f,line)){ size_t p=line.find('|'); std::string fen=line.substr(0,p); std::set<std::string> exp; std::istringstream ss(line.substr(p+1)); std::string t; while(ss>>t) exp.insert(t);
   Position pos(fen); Move l[MAX_MOVES]; Move* e=generate_moves(pos,pos.color(),l); std::multiset<std::string> got; for(Move*i=l;i!=e;++i) got.insert(pos.uci(*i));
   std::set<std::string> gs(got.begin(),got.end()); n++;
   if(gs!=exp || got.size()!=gs.size()){ bad++; std::string miss,extra; for(auto&m:exp) if(!gs.count(m)) miss+=m+" "; for(auto&m:gs) if(!exp.count(m)) extra+=m+" ";
     bool epmiss = !miss.empty() && extra.empty();
     kinds[epmiss? "missing-only":"other"]++; if(bad<=6 || !epmiss) printf("DIFF %s missing[%s] extra[%s]\n",fen.c_str(),miss.c_str(),extra.c_str()); } }
 printf("compared %d diffs %d\n",n,bad); for(auto&kv:kinds) printf(" %s %d\n",kv.first.c_str(),kv.second); }
