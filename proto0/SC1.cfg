CONSTANTS MaxIter = 3  MaxNodes = 2  ResetInGo = TRUE  FallbackMove = FALSE
SPECIFICATION Spec
INVARIANT BestLegal
INVARIANT OneBest
PROPERTY NoNewIterAfterStop
CHECK_DEADLOCK FALSE
