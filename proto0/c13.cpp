#include "endgame.h"
#include "movegen.h"
#include "position.h"
#include "score.h"
#include "zobrist_hash.h"
#include <random>
#include <cstdio>
#include <map>
#include <sstream>
using namespace engine;
std::string mirror_fen(const std::string& fen){
  std::istringstream ss(fen); std::string pl, stm, ca, ep; int h,f; ss>>pl>>stm>>ca>>ep>>h>>f;
  std::vector<std::string> ranks; std::string cur; for(char c: pl){ if(c=='/'){ranks.push_back(cur);cur="";} else cur+=c;} ranks.push_back(cur);
  std::string out; for(int i=7;i>=0;--i){ for(char c: ranks[i]){ if(isalpha(c)) out+= isupper(c)?tolower(c):toupper(c); else out+=c;} if(i) out+='/'; }
  std::string ca2; if(ca=="-") ca2="-"; else { std::string t; for(char c: ca) t+= isupper(c)?tolower(c):toupper(c); for(char c: std::string("KQkq")) if(t.find(c)!=std::string::npos) ca2+=c; }
  std::string ep2 = ep=="-"?"-": std::string(1,ep[0])+char('1'+('8'-ep[1]));
  return out+" "+(stm=="w"?"b":"w")+" "+ca2+" "+ep2+" "+std::to_string(h)+" "+std::to_string(f);
}
int main(int argc,char**argv){ move_bitboards::init(); zobrist::init(); bitbase::init(); endgame::init();
  std::mt19937 rng(atoi(argv[1])); int games=atoi(argv[2]); long n=0,bad=0; std::map<std::string,int> kinds;
  for(int g=0;g<games;++g){ Position pos; int maxply = 40 + rng()%260;
    for(int ply=0;ply<maxply;++ply){ Move list[MAX_MOVES]; Move* end=generate_moves(pos,pos.color(),list); int k=end-list; if(k==0||pos.rule50()) break;
      // prefer captures sometimes to reach endgames
      Move m=list[rng()%k]; if(rng()%2){ for(int t=0;t<k;++t){ Move c=list[rng()%k]; if(pos.move_is_capture(c)){m=c;break;} } }
      pos.do_move(m);
      if(!pos.enough_material()) break;
      std::string f1=pos.fen(), f2=mirror_fen(f1); Position q(f2);
      PositionScorer s1,s2; Value a=s1.score(pos), b=s2.score(q); n++;
      if(a!=b){ bad++; // classify by piece count vector
        char key[64]; snprintf(key,64,"%llx",(unsigned long long)pos.get_pcv()); kinds[popcount(pos.pieces())<=5? std::string("eg:")+key : "mid"]++;
        if(bad<=15) printf("ASYM %ld vs %ld : %s\n",(long)a,(long)b,f1.c_str()); }
    } }
  printf("pairs=%ld asym=%ld\n",n,bad); for(auto&kv:kinds) printf("  %s %d\n",kv.first.c_str(),kv.second);
}
