------------------------------- MODULE Att -------------------------------
EXTENDS Chess
RECURSIVE Walk(_,_,_)
Walk(occ, seq, i) == IF i > Len(seq) THEN {} ELSE IF seq[i] \in occ THEN {seq[i]} ELSE {seq[i]} \cup Walk(occ, seq, i+1)
Slide(s, occ, dirs) == UNION {Walk(occ, RayT[d][s], 1) : d \in dirs}
\* relevant mask: ray squares except the last of each ray
Mask(s, dirs) == UNION {{RayT[d][s][i] : i \in 1..(Len(RayT[d][s]) - 1)} : d \in dirs}
VARIABLES s, k
Init == s = 0 /\ k = 0
Next == s < 63 /\ s' = s + 1 /\ k' = k
Chk == LET M == Mask(s, OrthoDirs) IN
       /\ \A occ \in SUBSET M : Cardinality(Slide(s, occ, OrthoDirs)) >= 2
=============================================================================
