#include "endgame.h"
#include "movegen.h"
#include "position.h"
#include "zobrist_hash.h"
#include <cstdio>
#include <set>
#include <fstream>
#include <sstream>
using namespace engine;
static std::set<int> readset(const std::string& s, const char* key){ std::set<int> r; size_t p=s.find(std::string("\"")+key+"\":["); p=s.find('[',p)+1; size_t e=s.find(']',p); std::stringstream ss(s.substr(p,e-p)); std::string t; while(std::getline(ss,t,',')) r.insert(atoi(t.c_str())); return r; }
int main(){ move_bitboards::init(); zobrist::init(); bitbase::init(); endgame::init();
 std::ifstream f("/tmp/proto/kpk_a.json"); std::stringstream b; b<<f.rdbuf(); std::string s=b.str();
 auto win=readset(s,"win"), legal=readset(s,"legal");
 int n=0,bad=0; for(int i: legal){ int stm=i/262144, wk=(i/4096)%64, wp=(i/64)%64, bk=i%64; bool w=win.count(i);
   bool e=bitbase::check(Color(stm),Square(wk),Square(wp),Square(bk)); n++; if(w!=e){ if(bad<12) printf("diff stm=%d wk=%d wp=%d bk=%d spec=%d eng=%d\n",stm,wk,wp,bk,(int)w,(int)e); bad++; } }
 printf("compared %d, diffs %d\n",n,bad); }
