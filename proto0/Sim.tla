------------------------------- MODULE Sim -------------------------------
EXTENDS ChessText, Json
CONSTANT MaxD
VARIABLES pos, legal, hist
Init == pos = StartPos /\ hist = <<>> /\ legal = Legal(StartPos)
Next == /\ Len(hist) < MaxD /\ legal # {}
        /\ \E m \in {RandomElement(legal)} :
           /\ pos' = Apply(pos, m) /\ hist' = Append(hist, Uci(m)) /\ legal' = Legal(Apply(pos, m))
Emit == (Len(hist) = MaxD \/ legal = {}) => PrintT("BEH " \o ToJson([moves |-> hist, fen |-> Fen(pos), legal |-> {Uci(m) : m \in legal}]))
=============================================================================
