#include <string>
#include <vector>
#include <map>
#include <regex>
#include <random>
#include <iostream>
#include <sstream>
#define private public
#include "endgame.h"
#include "movegen.h"
#include "position.h"
#include "score.h"
#include "zobrist_hash.h"
#undef private
#include <cstdio>
using namespace engine;
int main(){ move_bitboards::init(); zobrist::init(); bitbase::init(); endgame::init();
  // search for a pawn structure with pawn key low 18 bits zero
  std::mt19937_64 rng(1);
  const uint64_t MASK = 512*512-1;
  std::string found;
  for (long it=0; it<20000000 && found.empty(); ++it){
    // random white/black pawns on ranks 2..7
    char b[8][8]; for(auto&r:b) for(auto&c:r) c=0;
    int nw = 1 + rng()%4, nb = 1 + rng()%4;
    for(int i=0;i<nw;i++){ int s=8+rng()%48; b[s/8][s%8]='P'; }
    for(int i=0;i<nb;i++){ int s=8+rng()%48; if(!b[s/8][s%8]) b[s/8][s%8]='p'; }
    b[0][4]='K'; b[7][4]='k'; b[0][0]='R'; b[7][0]='r'; b[0][7]='R';
    std::string fen; for(int r=7;r>=0;--r){ int e=0; for(int f=0;f<8;++f){ if(!b[r][f]) e++; else { if(e) fen+=char('0'+e); e=0; fen+=b[r][f]; } } if(e) fen+=char('0'+e); if(r) fen+='/'; }
    fen += " w - - 0 1";
    Position p(fen);
    if (p.pawn_hash()!=0 && (p.pawn_hash() & MASK)==0) found=fen;
  }
  printf("found: %s\n", found.c_str());
  if(found.empty()) return 0;
  Position pawnless("r3k3/8/8/8/8/8/8/R3K2R w - - 0 1");
  PositionScorer fresh; Value v0 = fresh.score(pawnless);
  PositionScorer s; Value a = s.score(pawnless); Position ps(found); Value b1 = s.score(ps); s.clear(); Value c = s.score(pawnless);
  printf("fresh=%ld warm-before=%ld structure=%ld after-clear=%ld\n",(long)v0,(long)a,(long)b1,(long)c);
  // without clear
  PositionScorer s2; s2.score(ps); Value d = s2.score(pawnless); printf("no-clear: %ld\n",(long)d);
}
