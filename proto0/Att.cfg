INIT Init
NEXT Next
INVARIANT Chk
CHECK_DEADLOCK FALSE
