
