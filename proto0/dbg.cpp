#include "endgame.h"
#include "movegen.h"
#include "position.h"
#include "zobrist_hash.h"
#include <cstdio>
using namespace engine;
int main(){ move_bitboards::init(); zobrist::init(); bitbase::init(); endgame::init();
  Position pos("1nB1k2r/3p1p2/r1p4q/1p2p2p/1PP1P1pP/2N1P1P1/4KP2/R1B3R1 b k - 0 24");
  Move m=pos.parse_uci("a6a1"); std::string s=pos.san(m); Move b=pos.parse_san(s);
  printf("san=%s parsed=%s (%u vs %u)\n", s.c_str(), b?pos.uci(b).c_str():"NO_MOVE", m, b);
  Move list[MAX_MOVES]; Move* end=generate_moves(pos,pos.color(),list); for(Move*i=list;i!=end;++i) printf("%s:%s ", pos.uci(*i).c_str(), pos.san(*i).c_str()); printf("\n");
}
