CONSTANT MaxD = 4
INIT Init
NEXT Next
CHECK_DEADLOCK FALSE
