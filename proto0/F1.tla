------------------------------- MODULE F1 -------------------------------
EXTENDS ChessText, Json
Abs(x) == IF x < 0 THEN -x ELSE x
Dist(a, b) == LET df == Abs(File(a) - File(b)) dr == Abs(Rank(a) - Rank(b)) IN IF df > dr THEN df ELSE dr
Count(b, pc) == Cardinality({s \in Sq : b[s] = pc})
RetroLegal(p) ==
  /\ Count(p.board, 6) = 1 /\ Count(p.board, 12) = 1
  /\ Dist(KingSq(p.board, 0), KingSq(p.board, 1)) > 1
  /\ \A s \in Sq : KindOf(p.board[s]) = 1 => Rank(s) \in 1..6
  /\ ~Attacked(p.board, KingSq(p.board, 1 - p.stm), p.stm)
  /\ p.ep # -1 =>
       LET c == 1 - p.stm
           to == p.ep + (IF c = 0 THEN 8 ELSE -8)
           from == p.ep - (IF c = 0 THEN 8 ELSE -8)
           b0 == [p.board EXCEPT ![to] = 0, ![from] = Piece(c, 1)]
       IN /\ Rank(p.ep) = (IF c = 0 THEN 2 ELSE 5)
          /\ p.board[to] = Piece(c, 1) /\ p.board[p.ep] = 0 /\ p.board[from] = 0
          /\ ~Attacked(b0, KingSq(p.board, p.stm), c)
Empty == [s \in Sq |-> 0]
Mk(wk, bk, cf, side, sk, ss) ==   \* white to move; capturer file cf rank 5; black pawn on cf+side just pushed
  LET cap == MkSq(cf, 4)  vic == MkSq(cf + side, 4)  ep == MkSq(cf + side, 5) IN
  [board |-> [Empty EXCEPT ![wk] = 6, ![bk] = 12, ![cap] = 1, ![vic] = 7, ![ss] = sk],
   stm |-> 0, castle |-> 0, ep |-> ep, hmc |-> 0, fmn |-> 1]
Distinct(wk, bk, cf, side, ss) ==
  LET cap == MkSq(cf, 4)  vic == MkSq(cf + side, 4)  ep == MkSq(cf + side, 5)  from == MkSq(cf + side, 6) IN
  Cardinality({wk, bk, cap, vic, ep, from, ss}) = 7
Interesting(p, cf, side) ==
  LET cap == MkSq(cf, 4)  vic == MkSq(cf + side, 4)
      b2 == [p.board EXCEPT ![cap] = 0, ![vic] = 0] IN
  Attacked(b2, KingSq(p.board, 0), 1) \/ Attacked(p.board, KingSq(p.board, 0), 1)
VARIABLES wk, pos
Init == wk \in Sq /\ pos = [none |-> TRUE]
Next == /\ pos = [none |-> TRUE]
        /\ \E bk \in {7, 56, 63}, cf \in 0..7, side \in {-1, 1}, sk \in {9, 10, 11}, ss \in Sq :
             /\ cf + side \in 0..7
             /\ Distinct(wk, bk, cf, side, ss)
             /\ LET p == Mk(wk, bk, cf, side, sk, ss) IN
                /\ Interesting(p, cf, side) /\ RetroLegal(p)
                /\ pos' = p
        /\ UNCHANGED wk
Emit == (pos # [none |-> TRUE]) => PrintT("POS " \o ToJson([fen |-> Fen(pos), legal |-> {Uci(m) : m \in Legal(pos)}]))
=============================================================================
