------------------------------- MODULE Perft -------------------------------
EXTENDS Chess
CONSTANT MaxD
VARIABLES pos, depth
Init == pos = StartPos /\ depth = 0
Next == depth < MaxD /\ \E m \in Legal(pos) : pos' = Apply(pos, m) /\ depth' = depth + 1
Spec == Init /\ [][Next]_<<pos, depth>>
=============================================================================
