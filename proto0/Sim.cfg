CONSTANT MaxD = 40
INIT Init
NEXT Next
CHECK_DEADLOCK FALSE
INVARIANT Emit
