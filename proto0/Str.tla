---- MODULE Str ----
EXTENDS Integers, Sequences, TLC, Json, IOUtils, Bitwise
ASSUME PrintT(<<"len", Len("abc"), "cat", "ab" \o "cd", "sub", SubSeq("abcdef", 2, 3)>>)
ASSUME PrintT(<<"xor", 43690 ^^ 21845, 65535 & 255, shiftR(1024, 3)>>)
ASSUME PrintT(ToJson([a |-> 1, b |-> <<1,2,3>>, c |-> {4,5}, d |-> "s"]))
ASSUME PrintT(IOEnv.HOME)
ASSUME PrintT(ToString(123) \o "x")
====
