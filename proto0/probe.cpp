#include "endgame.h"
#include "movegen.h"
#include "position.h"
#include "score.h"
#include "zobrist_hash.h"
#include <random>
#include <cstdio>
#include <map>
#include <set>
using namespace engine;
std::map<std::string,int> cnt; std::map<std::string,std::string> ex;
void rec(const std::string& k, const Position& p, Move m){ if(!cnt[k]++) ex[k]=p.fen()+" "+p.uci(m); }
int main(int argc,char**argv){ move_bitboards::init(); zobrist::init(); bitbase::init(); endgame::init();
  std::mt19937 rng(atoi(argv[1])); int games=atoi(argv[2]); long npos=0,nmv=0;
  PositionScorer sc;
  for(int g=0;g<games;++g){ Position pos; int maxply = 40 + rng()%200;
    for(int ply=0;ply<maxply;++ply){ Move list[MAX_MOVES]; Move* end=generate_moves(pos,pos.color(),list); int k=end-list; if(k==0||pos.rule50()) break; npos++;
      std::string fen0=pos.fen(); uint64_t h0=pos.hash(), ph0=pos.pawn_hash(); 
      for(int i=0;i<k;++i){ Move m=list[i]; nmv++;
        bool cap=pos.move_is_capture(m), quiet=pos.move_is_quiet(m), chk=pos.move_gives_check(m);
        int before=popcount(pos.pieces()); std::string u=pos.uci(m); std::string s=pos.san(m);
        Move pu=pos.parse_uci(u); if(pu!=m) rec("C16 parse_uci(uci)", pos, m);
        Move ps=pos.parse_san(s); if(ps!=m) rec(std::string("C17 parse_san(san) ")+(castling(m)?"castle":"other"), pos, m);
        MoveInfo mi=pos.do_move(m);
        int after=popcount(pos.pieces()); bool realcap = after<before; bool realchk=pos.is_in_check(pos.color());
        if(cap!=realcap) rec("C15 capture", pos, m);
        bool realquiet = !realcap && promotion(m)==NO_PIECE_KIND; if(quiet!=realquiet) rec("C15 quiet", pos, m);
        if(chk!=realchk) rec(std::string("C15 check ")+(castling(m)?"castle":promotion(m)?"promo":"other")+(chk?" fp":" fn"), pos, m);
        Position re(pos.fen()); if(re.hash()!=pos.hash()||re.pawn_hash()!=pos.pawn_hash()) rec("C04 inc!=scratch", pos, m);
        if(re.fen()!=pos.fen()) rec("C16 fen roundtrip", pos, m);
        pos.undo_move(m,mi);
        if(pos.fen()!=fen0||pos.hash()!=h0||pos.pawn_hash()!=ph0) rec("C03 undo", pos, m);
      }
      if(!pos.is_in_check(pos.color())){ MoveInfo mi=pos.do_null_move(); Position re(pos.fen()); if(re.hash()!=pos.hash()) rec("C04 null inc!=scratch",pos,list[0]); pos.undo_null_move(mi); if(pos.fen()!=fen0||pos.hash()!=h0) rec("C03 null undo",pos,list[0]); }
      Move m=list[rng()%k]; pos.do_move(m);
    } }
  printf("positions=%ld moves=%ld\n",npos,nmv); for(auto&kv:cnt) printf("  %-34s %7d  e.g. %s\n",kv.first.c_str(),kv.second,ex[kv.first].c_str());
}
