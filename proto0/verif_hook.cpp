#include "verif_hook.h"
#ifdef CHESSPP_VERIF
namespace engine { namespace verif { Sink sink = nullptr; } }
#endif
