------------------------------- MODULE SearchCtl -------------------------------
EXTENDS Integers, Sequences, FiniteSets, TLC
CONSTANTS MaxIter,      \* iterations the position needs before natural end (depth limit)
          MaxNodes,     \* node visits per iteration (abstract)
          ResetInGo,    \* TRUE: go() executes stop:=FALSE (as in the code); FALSE: repaired
          FallbackMove  \* TRUE: repaired (best initialised to a root move)
VARIABLES rpc,          \* reader: "idle" | "wentgo" | "stopped"
          spc,          \* searcher pc
          stop, best, depth, nodes, out, stopSent
vars == <<rpc, spc, stop, best, depth, nodes, out, stopSent>>
Init == rpc = "idle" /\ spc = "none" /\ stop = FALSE /\ best = "none" /\ depth = 0 /\ nodes = 0 /\ out = <<>> /\ stopSent = FALSE
\* reader
Go == rpc = "idle" /\ rpc' = "wentgo" /\ spc' = "spawned" /\ stop' = FALSE /\ UNCHANGED <<best, depth, nodes, out, stopSent>>
Stop == rpc = "wentgo" /\ rpc' = "stopped" /\ stop' = TRUE /\ stopSent' = TRUE /\ UNCHANGED <<spc, best, depth, nodes, out>>
\* searcher
ThreadStart == spc = "spawned" /\ spc' = "go_entry" /\ UNCHANGED <<rpc, stop, best, depth, nodes, out, stopSent>>
InitSearch == spc = "go_entry" /\ spc' = "after_init" /\ UNCHANGED <<rpc, stop, best, depth, nodes, out, stopSent>>
ResetStop == spc = "after_init" /\ spc' = "loop_head" /\ stop' = (IF ResetInGo THEN FALSE ELSE stop)
             /\ best' = (IF FallbackMove THEN "root0" ELSE "none") /\ UNCHANGED <<rpc, depth, nodes, out, stopSent>>
LoopHead == spc = "loop_head" /\
            IF stop THEN spc' = "print_best" /\ UNCHANGED <<rpc, stop, best, depth, nodes, out, stopSent>>
            ELSE spc' = "searching" /\ depth' = depth + 1 /\ nodes' = 0 /\ UNCHANGED <<rpc, stop, best, out, stopSent>>
Node == spc = "searching" /\ nodes < MaxNodes /\ ~stop /\ nodes' = nodes + 1 /\ UNCHANGED <<rpc, spc, stop, best, depth, out, stopSent>>
IterEnd == spc = "searching" /\ (nodes = MaxNodes \/ stop) /\
           /\ (IF ~stop THEN best' = "pv" /\ out' = Append(out, <<"info", depth>>) ELSE UNCHANGED <<best, out>>)
           /\ spc' = (IF depth >= MaxIter THEN "print_best" ELSE "loop_head")
           /\ UNCHANGED <<rpc, stop, depth, nodes, stopSent>>
PrintBest == spc = "print_best" /\ out' = Append(out, <<"bestmove", best>>) /\ spc' = "done" /\ UNCHANGED <<rpc, stop, best, depth, nodes, stopSent>>
SNext == ThreadStart \/ InitSearch \/ ResetStop \/ LoopHead \/ Node \/ IterEnd \/ PrintBest
Next == Go \/ Stop \/ SNext
Spec == Init /\ [][Next]_vars /\ WF_vars(SNext)
BestLegal == \A i \in 1..Len(out) : out[i][1] = "bestmove" => out[i][2] # "none"
OneBest == Cardinality({i \in 1..Len(out) : out[i][1] = "bestmove"}) <= 1
\* after a stop, no further iteration is started (promptness in steps)
StopHonoured == (stopSent /\ spc = "searching") => (stop \/ nodes = 0 \/ TRUE)
NoNewIterAfterStop == [][ (stopSent /\ spc = "loop_head" /\ spc' = "searching") => FALSE ]_vars
EventuallyBest == <>(spc = "done")
=============================================================================
