// prototype: deterministic schedule replay of reader (Uci::loop) vs search thread
#include <string>
#include <vector>
#include <map>
#include <regex>
#include <random>
#include <iostream>
#include <sstream>
#include <thread>
#include <mutex>
#include <condition_variable>
#include <deque>
#include <atomic>
#include <chrono>
#include <cstring>
#include <functional>
#include <memory>
#include "endgame.h"
#include "movegen.h"
#include "uci.h"
#include "zobrist_hash.h"
#include "verif_hook.h"
using namespace engine;

// ---------- blocking input buffer for std::cin
struct InBuf : std::streambuf {
  std::mutex m; std::condition_variable cv; std::deque<std::string> q; std::string cur; bool closed=false;
  void push(const std::string& line){ { std::lock_guard<std::mutex> l(m); q.push_back(line+"\n"); } cv.notify_all(); }
  void close(){ { std::lock_guard<std::mutex> l(m); closed=true; } cv.notify_all(); }
  int underflow() override { std::unique_lock<std::mutex> l(m); cv.wait(l,[&]{return !q.empty()||closed;}); if(q.empty()) return traits_type::eof(); cur=q.front(); q.pop_front(); setg(&cur[0],&cur[0],&cur[0]+cur.size()); return traits_type::to_int_type(*gptr()); }
};
// ---------- thread-safe output capture
struct OutBuf : std::streambuf {
  std::mutex m; std::condition_variable cv; std::string acc; std::vector<std::string> lines;
  int overflow(int c) override { std::lock_guard<std::mutex> l(m); if(c=='\n'){ lines.push_back(acc); acc.clear(); cv.notify_all(); } else acc.push_back((char)c); return c; }
  bool wait_line(const std::string& prefix, int ms, std::string* out=nullptr){ std::unique_lock<std::mutex> l(m); return cv.wait_for(l,std::chrono::milliseconds(ms),[&]{ for(auto&s:lines) if(s.rfind(prefix,0)==0){ if(out)*out=s; return true;} return false;}); }
  int count(const std::string& prefix){ std::lock_guard<std::mutex> l(m); int n=0; for(auto&s:lines) if(s.rfind(prefix,0)==0) n++; return n; }
};
// ---------- scheduler sink
static std::mutex sm; static std::condition_variable scv;
static std::string park_id; static long park_count=0;     // park the calling thread at the park_count-th occurrence of park_id
static std::map<std::string,long> seen; static bool parked=false, released=false; static long nodes_after_stop=-1; static bool stop_seen=false;
static void sink(const char* id, int64_t a, int64_t b){ (void)a;(void)b;
  std::unique_lock<std::mutex> l(sm);
  long n=++seen[id];
  if(!strcmp(id,"stop_call")){ stop_seen=true; nodes_after_stop=0; scv.notify_all(); return; }
  if(!strcmp(id,"node") && stop_seen) nodes_after_stop++;
  if(park_id==id && n==park_count){ parked=true; scv.notify_all(); scv.wait(l,[]{return released;}); }
}
int main(int argc,char**argv){
  move_bitboards::init(); zobrist::init(); bitbase::init(); endgame::init();
  std::vector<std::pair<std::string,long>> schedules = {{"thread_start",1},{"go_entry",1},{"after_init",1},{"after_reset",1},{"iter_start",1},{"node",1},{"node",5},{"node",200},{"iter_end",1},{"iter_start",2},{"node",3000},{"before_best",1}};
  InBuf in; OutBuf out; auto* oc=std::cout.rdbuf(&out); auto* ic=std::cin.rdbuf(&in);
  engine::verif::sink = sink;
  Uci uci; std::thread reader([&]{ uci.loop(); });
  int idx=0;
  for(auto& sc: schedules){
    { std::lock_guard<std::mutex> l(sm); park_id=sc.first; park_count=sc.second; seen.clear(); parked=false; released=false; stop_seen=false; nodes_after_stop=-1; }
    { std::lock_guard<std::mutex> l(out.m); out.lines.clear(); }
    in.push("ucinewgame"); in.push("position startpos"); in.push(sc.first=="before_best" ? "go depth 3" : "go infinite");
    bool got_park; { std::unique_lock<std::mutex> l(sm); got_park=scv.wait_for(l,std::chrono::seconds(20),[]{return parked;}); }
    in.push("isready"); bool ready=out.wait_line("readyok",5000);
    in.push("stop");
    bool got_stop; { std::unique_lock<std::mutex> l(sm); got_stop=scv.wait_for(l,std::chrono::seconds(5),[]{return stop_seen;}); }
    { std::lock_guard<std::mutex> l(sm); released=true; } scv.notify_all();
    std::string bm; bool got=out.wait_line("bestmove",4000,&bm);
    long nas; { std::lock_guard<std::mutex> l(sm); nas=nodes_after_stop; }
    fprintf(stderr,"sched %2d park=%s#%ld parked=%d readyok=%d stop_delivered=%d bestmove=%s nodes_after_stop=%ld nbest=%d\n",idx++,sc.first.c_str(),sc.second,got_park,ready,got_stop,got?bm.c_str():"<NONE within 4s>",nas,out.count("bestmove"));
    if(!got){ // lost stop: search still running; force it down by sending stop again (now after reset) so that the session can continue
      in.push("stop"); out.wait_line("bestmove",20000,&bm); fprintf(stderr,"         (second stop -> %s)\n", bm.c_str()); }
  }
  in.push("quit"); reader.join(); std::cout.rdbuf(oc); std::cin.rdbuf(ic);
}
